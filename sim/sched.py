"""Deterministic thread scheduler: baton-passed real threads, pre-empted at library lines.

Exactly one worker thread is runnable at any time.  A worker reaches a *yield point* at every
`line` (or `opcode`) trace event in a frame whose code lives under the openskill package
directory; there the chooser decides who executes next.  Every decision is recorded
(run-length encoded) so that a run can be replayed without any PRNG.
"""
import _thread
import hashlib
import sys
import threading

from core import HarnessError, pkg_dir


class SimCrash(BaseException):
    """Injected kill of a call in flight (models KeyboardInterrupt / MemoryError / watchdog)."""


class SimAbort(BaseException):
    """Step cap exceeded or scheduler failure: unwinds a worker; reported as HARNESS-ERROR."""


_PKG = None
_MON = sys.monitoring
TOOL = 3
_tool_ready = False
_codes = None
_active = {}  # thread ident -> callable(code, where) invoked at every library line / instruction
_enabled = None


def _pkg():
    global _PKG
    if _PKG is None:
        _PKG = pkg_dir()
    return _PKG


_extra_codes = []


def register_modules(mods):
    """Code objects of a further import of the library (league B after a process restart)."""
    _extra_codes[:] = _walk_modules(mods)  # only the latest restart of league B is alive


def library_code_objects():
    """Every code object defined in an openskill module (functions, methods, lambdas, nested)."""
    global _codes
    if _codes is None:
        from core import library_modules

        _codes = _walk_modules(library_modules())
    return _codes + _extra_codes


def _walk_modules(mods):
    import types

    seen = set()
    out = []

    def walk(co):
        if co in seen:
            return
        seen.add(co)
        if co.co_filename.startswith(_pkg()):
            out.append(co)
        for c in co.co_consts:
            if isinstance(c, types.CodeType):
                walk(c)

    for m in mods:
        for v in list(vars(m).values()):
            if isinstance(v, types.FunctionType):
                walk(v.__code__)
            elif isinstance(v, type) and getattr(v, "__module__", None) == m.__name__:
                for cv in list(vars(v).values()):
                    f = getattr(cv, "__func__", cv)
                    if isinstance(f, types.FunctionType):
                        walk(f.__code__)
    return out


def _on_event(code, where):
    f = _active.get(_thread.get_ident())
    if f is not None:
        f(code, where)


class instrumented:
    """Switch library-local LINE / INSTRUCTION events on for the duration of a block.  Entered
    and left only at quiescent points (no worker thread alive), which is what keeps CPython
    3.12.1's instrumentation stable - sys.settrace with f_trace_opcodes segfaults under threads."""

    def __init__(self, gran):
        self.ev = _MON.events.INSTRUCTION if gran == "opcode" else _MON.events.LINE

    def __enter__(self):
        global _tool_ready, _enabled
        if not _tool_ready:
            _MON.use_tool_id(TOOL, "leaguesim")
            _MON.register_callback(TOOL, _MON.events.LINE, _on_event)
            _MON.register_callback(TOOL, _MON.events.INSTRUCTION, _on_event)
            _tool_ready = True
        if _enabled is not None:
            raise HarnessError("nested instrumentation")
        for co in library_code_objects():
            _MON.set_local_events(TOOL, co, self.ev)
        _enabled = self.ev
        return self

    def __exit__(self, *a):
        global _enabled
        for co in library_code_objects():
            _MON.set_local_events(TOOL, co, 0)
        _enabled = None
        return False


# ------------------------------------------------------------------ cooperative locks
# The library creates no locks today.  If a change adds one (threading.Lock / RLock created by
# code under openskill/), a worker parked by the scheduler while holding it would make any
# other worker's acquire() block for real - with the baton in its hand: a deadlock the library
# does not have.  Locks created by library code are therefore wrapped: inside a scheduled
# worker a contended acquire() hands the baton to another thread (a scheduling decision like
# any other, recorded and replayable) and retries; everywhere else it is the real lock.

_workers = {}  # thread ident -> (Sched, thread index) of scheduled workers
_real_Lock = threading.Lock
_real_RLock = threading.RLock
_lock_seam = False


_coop_locks = None


class CoopLock:
    def __init__(self, real):
        global _coop_locks
        import weakref

        self._real = real
        self._owner = None
        self._count = 0
        if _coop_locks is None:
            _coop_locks = weakref.WeakSet()
        _coop_locks.add(self)

    def _got(self):
        self._owner = _thread.get_ident()
        self._count += 1
        return True

    def acquire(self, blocking=True, timeout=-1):
        me = _thread.get_ident()
        ent = _workers.get(me)
        if ent is None or not blocking:
            if blocking and not _workers:
                # sequential part of a run: if it is held, nobody is left who could release it
                if self._real.acquire(False):
                    return self._got()
                raise HarnessError("library lock held by a thread that no longer runs (or self-deadlock)")
            ok = self._real.acquire(blocking, timeout)
            return self._got() if ok else False
        sc, i = ent
        if self._real.acquire(False):
            return self._got()
        sc.waiting[i] = True
        try:
            while True:
                sc.blocked_yield(i)
                if self._real.acquire(False):
                    return self._got()
        finally:
            sc.waiting[i] = False

    def release(self):
        self._count -= 1
        if self._count <= 0:
            self._count = 0
            self._owner = None
        self._real.release()

    def locked(self):
        return self._real.locked()

    def __enter__(self):
        self.acquire()
        return self

    def __exit__(self, *a):
        self.release()
        return False

    def __getattr__(self, name):
        return getattr(self._real, name)


def release_leaked():
    """After an injected kill: an exception raised at the LINE event that precedes the
    __exit__ call of a `with lock:` block escapes without releasing the lock.  CPython itself
    never delivers an asynchronous exception there (no eval-breaker check between the end of
    the block and the call of __exit__), so the injection point is harsher than reality; the
    locks the killed thread still owns are released on its behalf and the event is counted."""
    me = _thread.get_ident()
    n = 0
    for l in list(_coop_locks or ()):
        while l._owner == me and l._count > 0:
            l.release()
            n += 1
    return n


leaked_locks_released = [0]


def _from_library():
    f = sys._getframe(2)
    return f is not None and f.f_code.co_filename.startswith(_pkg())


def _lock_factory(*a, **k):
    real = _real_Lock(*a, **k)
    return CoopLock(real) if _from_library() else real


def _rlock_factory(*a, **k):
    real = _real_RLock(*a, **k)
    return CoopLock(real) if _from_library() else real


def install_lock_seam():
    global _lock_seam
    if not _lock_seam:
        threading.Lock = _lock_factory
        threading.RLock = _rlock_factory
        _lock_seam = True


def short_loc(code, where):
    return (code.co_filename[len(_PKG):], code.co_firstlineno, where)


# ------------------------------------------------------------------ single-thread tracing


class LineCounter:
    """Run a call on the current thread: count library yield points, crash at the n-th."""

    def __init__(self, crash_at=None, gran="line", cap=5_000_000):
        self.crash_at = crash_at
        self.gran = gran
        self.steps = 0
        self.cap = cap
        self.fired = False
        self.fired_loc = None

    def _cb(self, code, where):
        self.steps += 1
        if self.steps == self.crash_at:
            self.fired = True
            self.fired_loc = short_loc(code, where)
            raise SimCrash()
        if self.steps > self.cap:
            raise SimAbort("step cap")

    def run(self, fn):
        """Run fn() traced. Returns ('ok', value) | ('crash', None) | ('exc', exception)."""
        me = _thread.get_ident()
        with instrumented(self.gran):
            _active[me] = self._cb
            try:
                try:
                    return ("ok", fn())
                except SimCrash:
                    leaked_locks_released[0] += release_leaked()
                    return ("crash", None)
                except SimAbort:
                    raise
                except Exception as e:  # library raised
                    return ("exc", e)
            finally:
                del _active[me]


def warm_up():
    """Touch every code path of the tracer once (instrumentation set-up is process-global)."""
    from core import load_openskill

    m = load_openskill().PlackettLuce()
    for gran in ("opcode", "line"):
        lc = LineCounter(gran=gran)
        lc.run(lambda: m.rate([[m.rating()], [m.rating()]]))
    return lc.steps


# ------------------------------------------------------------------ choosers


def rle_append(rle, t):
    if rle and rle[-1][0] == t:
        rle[-1][1] += 1
    else:
        rle.append([t, 1])


class ReplayChooser:
    """Follows explicit segments [[thread, count], ...]; any edited list is still valid."""

    def __init__(self, segments):
        self.flat = []
        for t, c in segments:
            self.flat.append([int(t), int(c)])
        self.i = 0

    def choose(self, cur, alive, sched):
        while self.i < len(self.flat):
            seg = self.flat[self.i]
            if seg[1] <= 0:
                self.i += 1
                continue
            seg[1] -= 1
            if alive[seg[0]] if seg[0] < len(alive) else False:
                return seg[0]
            # thread finished: drop the rest of this segment
            seg[1] = 0
        for t, a in enumerate(alive):
            if a:
                return t
        return None


class GenChooser:
    """Seeded strategies: walk / pct / window, with optional write-directed overlay."""

    def __init__(self, rng, n, strategy, params, probe=None):
        self.rng = rng
        self.n = n
        self.strategy = strategy
        self.p = params
        self.probe = probe
        self.last_probe = probe() if probe else None
        self.burst_left = 0
        self.burst_thread = None
        self.overlay_fired = 0
        self.own_steps = [0] * n
        if strategy == "pct":
            self.prio = list(range(n))
            rng.shuffle(self.prio)
            self.low = -1
            self.changes = sorted(params.get("changes", []))
        if strategy == "window":
            self.a = params.get("a", 0) % n
            self.s = params.get("s", 1)
            self.phase = 0
            self.order = [t for t in range(n) if t != self.a]
            rng.shuffle(self.order)

    def _others(self, cur, alive):
        return [t for t in range(self.n) if alive[t] and t != cur]

    def choose(self, cur, alive, sched):
        if cur is not None:
            self.own_steps[cur] += 1
        # overlay: did the line just executed write shared state?
        if self.probe is not None:
            pr = self.probe()
            wrote = pr != self.last_probe
            self.last_probe = pr
            if self.burst_left > 0:
                self.burst_left -= 1
                bt = self.burst_thread
                if self.burst_left > 0 and bt is not None and alive[bt]:
                    return bt
                self.burst_left = 0
            if wrote and cur is not None:
                sched.writes_seen += 1
                oth = self._others(cur, alive)
                if oth and self.rng.random() < self.p.get("overlay_p", 0.8):
                    self.overlay_fired += 1
                    self.burst_thread = self.rng.choice(oth)
                    self.burst_left = self.rng.choice([1, 2, 3, 5, 10, 50, 10 ** 9])
                    return self.burst_thread
        st = self.strategy
        al = [t for t in range(self.n) if alive[t]]
        if not al:
            return None
        if st == "walk":
            if cur is None or not alive[cur]:
                return self.rng.choice(al)
            if len(al) > 1 and self.rng.random() < self.p["p"]:
                return self.rng.choice(self._others(cur, alive))
            return cur
        if st == "pct":
            while self.changes and sched.steps >= self.changes[0]:
                self.changes.pop(0)
                if cur is not None:
                    self.prio[cur] = self.low
                    self.low -= 1
            return max(al, key=lambda t: self.prio[t])
        if st == "window":
            a = self.a
            if self.phase == 0:
                if alive[a] and self.own_steps[a] < self.s:
                    return a
                self.phase = 1
            if self.phase == 1:
                for t in self.order:
                    if alive[t]:
                        return t
                self.phase = 2
            return a if alive[a] else al[0]
        if st == "serial":
            if cur is not None and alive[cur]:
                return cur
            return al[0]
        raise HarnessError("unknown strategy %r" % st)


def gen_strategy(rng, n, est_steps):
    """Draw a strategy and its parameters from the schedule stream."""
    r = rng.random()
    if r < 0.40:
        return "walk", {"p": rng.choice([0.01, 0.05, 0.2, 0.5])}
    if r < 0.70:
        d = rng.choice([1, 2, 3])
        ch = [int(est_steps * rng.random() ** 2) + 1 for _ in range(d - 1 + 1)]
        return "pct", {"changes": ch}
    return "window", {"a": rng.randrange(n), "s": int(est_steps / n * rng.random()) + 1}


# ------------------------------------------------------------------ the scheduler


class Sched:
    def __init__(self, n, chooser, gran="line", crash=None, step_cap=2_000_000, timeout=120.0):
        self.n = n
        self.chooser = chooser
        self.gran = gran
        self.crash = tuple(crash) if crash else None  # (thread, call index, step in call)
        self.crash_fired = False
        self.crash_loc = None
        self.step_cap = step_cap
        self.timeout = timeout
        self.locks = [_thread.allocate_lock() for _ in range(n)]
        for l in self.locks:
            l.acquire()
        self.main_lock = _thread.allocate_lock()
        self.main_lock.acquire()
        self.alive = [True] * n
        self.steps = 0
        self.call_idx = [-1] * n
        self.call_steps = [0] * n
        self.in_call = [False] * n
        self.waiting = [False] * n  # spinning on a cooperative lock
        self.lock_waits = 0
        self.loc = [None] * n
        self.decisions = []  # RLE
        self.switches = 0
        self.switches_overlap = 0
        self.writes_seen = 0
        self.sig = hashlib.blake2b(digest_size=8)
        self.switch_sites = set()
        self.lines_seen = set()
        self.error = None

    # -- decisions
    def _decide(self, cur):
        t = self.chooser.choose(cur, self.alive, self)
        if t is None or not self.alive[t]:
            raise SimAbort("chooser returned dead thread %r" % (t,))
        rle_append(self.decisions, t)
        return t

    def begin_call(self, i):
        self.call_idx[i] += 1
        self.call_steps[i] = 0
        self.in_call[i] = True

    def end_call(self, i):
        self.in_call[i] = False

    def _yield(self, i, code, where):
        if not self.in_call[i]:
            return  # library code run by the harness itself (rating(), create_rating()): atomic
        self.steps += 1
        if self.steps > self.step_cap:
            raise SimAbort("step cap %d exceeded" % self.step_cap)
        self.call_steps[i] += 1
        loc = (code.co_filename[self._plen:], code.co_firstlineno, where)
        self.loc[i] = loc
        self.lines_seen.add(loc)
        c = self.crash
        if c is not None and c[0] == i and c[1] == self.call_idx[i] and c[2] == self.call_steps[i]:
            self.crash_fired = True
            self.crash_loc = loc
            raise SimCrash()
        nxt = self._decide(i)
        if nxt != i:
            self.switches += 1
            if self.in_call[nxt]:
                self.switches_overlap += 1
            self.switch_sites.add(loc)
            self.sig.update(repr((i, loc, nxt, self.loc[nxt])).encode())
            self.locks[nxt].release()
            self.locks[i].acquire()
            if self.error is not None:
                raise SimAbort("aborted")

    def blocked_yield(self, i):
        """Thread i cannot proceed (a cooperative lock is held by a parked thread): the baton
        must go to somebody else.  Everybody waiting = a deadlock of the library's own making."""
        self.steps += 1
        self.lock_waits += 1
        if self.steps > self.step_cap:
            raise SimAbort("step cap %d exceeded (lock wait)" % self.step_cap)
        runnable = [t for t in range(self.n) if self.alive[t] and t != i and not self.waiting[t]]
        if not runnable:
            raise SimAbort("deadlock: every live worker waits for a lock")
        # masked for this decision only: the chooser must pick a thread that can actually run
        # (neither the caller nor another waiter - two high-priority waiters would otherwise
        # hand the baton to each other for ever while the owner never runs)
        saved = list(self.alive)
        for t in range(self.n):
            if t == i or self.waiting[t]:
                self.alive[t] = False
        try:
            nxt = self.chooser.choose(None, self.alive, self)
            if nxt is None or not self.alive[nxt]:
                raise SimAbort("chooser returned dead thread %r" % (nxt,))
            rle_append(self.decisions, nxt)
        finally:
            self.alive[:] = saved
        self.switches += 1
        self.sig.update(repr((i, "lock", nxt, self.loc[nxt])).encode())
        self.locks[nxt].release()
        self.locks[i].acquire()
        if self.error is not None:
            raise SimAbort("aborted")

    def rearm(self, i):
        # monitoring callbacks stay installed after an exception (unlike sys.settrace);
        # what a killed call may leave behind is a lock (see release_leaked)
        leaked_locks_released[0] += release_leaked()

    def _body(self, i, fn):
        self.locks[i].acquire()
        if self.error is None:
            me = _thread.get_ident()
            _active[me] = lambda code, where: self._yield(i, code, where)
            _workers[me] = (self, i)
            try:
                fn(self, i)
            except SimAbort as e:
                if self.error is None:
                    self.error = "thread %d: %s" % (i, e)
            except BaseException as e:  # harness bug inside a worker
                if self.error is None:
                    import traceback

                    self.error = "thread %d: %r\n%s" % (i, e, traceback.format_exc())
            finally:
                _active.pop(me, None)
                _workers.pop(me, None)
        self.alive[i] = False
        nxt = None
        if any(self.alive):
            if self.error is None:
                try:
                    nxt = self._decide(None)
                except BaseException as e:
                    self.error = "decide after finish: %r" % (e,)
            if nxt is None:
                nxt = self.alive.index(True)
        if nxt is None:
            self.main_lock.release()
        else:
            self.locks[nxt].release()

    def run(self, fns):
        assert len(fns) == self.n
        self._plen = len(_pkg())
        with instrumented(self.gran):
            ths = [threading.Thread(target=self._body, args=(i, fn), daemon=True) for i, fn in enumerate(fns)]
            for t in ths:
                t.start()
            first = self._decide(None)
            self.locks[first].release()
            if not self.main_lock.acquire(timeout=self.timeout):
                raise HarnessError("scheduler watchdog: threads did not finish in %.0fs" % self.timeout)
            for t in ths:
                t.join(self.timeout)
        if self.error is not None:
            raise HarnessError("scheduler: %s" % self.error)
        return self

    def signature(self):
        return self.sig.hexdigest()
