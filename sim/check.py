#!/venv/bin/python
"""CLI of the league simulator.

  check.py <ID> --tier quick|thorough     decide property <ID> on /repo's working tree
  check.py --replay <file>                re-execute a replay file (PRNG-free)

exit 0: held on everything explored (known findings are printed as KNOWN-FINDING lines)
exit 1: at least one `VIOLATION property=<id> replay=<path>`
exit 2: HARNESS-ERROR (worker died, timeout, replay did not reproduce, ...)
"""
import array
import json
import os
import shutil
import subprocess
import sys
import tempfile
import time

HERE = os.path.dirname(os.path.abspath(__file__))
sys.path.insert(0, HERE)
sys.dont_write_bytecode = True

PY = sys.executable
NCPU = min(16, os.cpu_count() or 4)

# runs per tier (fixed numbers: a tier explores the same runs every time for a given seed),
# wall-clock guard in seconds after which no further run is ISSUED
TIERS = {
    "quick": {"C06": (6000, 70), "C13": (1200, 60), "C14": (2400, 50), "C15": (4000, 60), "C20": (4500, 60)},
    "thorough": {"C06": (60000, 600), "C13": (12000, 600), "C14": (40000, 700), "C15": (50000, 600), "C20": (300000, 600)},
}
LEVEL = {"C06": "exploration", "C13": "fault_enumeration", "C14": "exploration", "C15": "exploration", "C20": "exploration"}
NT_CAP = 120000  # per-worker cap on stored non-trivial case hashes
HS_SAMPLE = {"quick": 700, "thorough": 8000}

RULES = {
    "C06": "cases = valid rate calls inside seeded closed-loop league histories (ratings fed back, restarts, per-call tau/limit_sigma), each checked against the per-game sigma bounds and its players' trajectory bounds (5 % of runs: rate calls of the threaded shared-model service, bounds checked per completed call); non-trivial = the bound was tight to 1e-6, the limit_sigma clamp fired, the kappa floor was hit, or a Thurstone-Mosteller pair 5-8.3 combined sd apart ended in an upset/tie; distinct by hash of (model, prior values, outcome, options)",
    "C13": "cases = malformed calls from the fixed grammar (every kind at every position of a base game reached in a league history; rate and the three predictors; sampled positions only for games with >9 players or >5 teams) plus well-formed twins, plus malformed and well-formed requests in flight together in the threaded shared-model service (half of the runs); non-trivial = the malformed call carried at least one live rating object whose corruption would be visible; distinct by hash of (model, fault kind, position, values of the base game)",
    "C14": "cases = oracle comparisons: a valid call vs. the same call executed in isolation on a fresh model with rebuilt ratings (other ids/names), model snapshots before/after every call or threaded phase, threaded phases vs. two sequential orders, module state per run; non-trivial = the call followed a call with per-call options / a rejected call / a crashed call / rebuilt objects, or ran inside a threaded phase with >= 2 threads; distinct by hash of (model, argument values, outcome, options, history kind)",
    "C15": "cases = rate calls on a long-lived shared model (sequential histories and threaded phases), each compared bit-for-bit with a fresh model CONSTRUCTED with the per-call options; non-trivial = an option was given, differed from the model's own setting and was live (changed at least one number of that game); distinct by hash of (model, argument values, outcome, options)",
    "C20": "cases = comparisons between twin leagues (objects kept vs. rebuilt from the (mu, sigma) store at arbitrary points, wholly or partly, also after a call killed mid-way) plus construction/copy invariants at every NEW/restore/deepcopy; non-trivial = a game involving >= 1 player restored since its last game, after >= 1 earlier game of a participant; distinct by hash of (model, argument values, outcome, options, restore paths)",
}

COMPONENTS = {
    "real": ["every line of openskill/ (five models, weng_lin/common.py, models/common.py) from VERIF_REPO's working tree", "CPython stdlib it calls (statistics.NormalDist, copy.deepcopy, uuid.uuid4, math)"],
    "stub": ["clients / match-maker / outcome generator", "the (mu, sigma) store (dict of JSON strings; never fails - the library never touches it)", "entropy (os.urandom patched to a seeded stream)", "thread scheduler (baton passing at library line/opcode events)", "gamma callbacks (harness-owned pure functions)"],
}
NA_FAULTS = ["message loss/duplication/reordering/delay", "partitions", "disk errors / torn or lost writes / full disk", "clock skew or jumps", "stalled nodes", "failing system calls", "bounded liveness after faults stop"]


def eprint(*a):
    print(*a, file=sys.stderr, flush=True)


# ====================================================================== worker


def worker_main(a):
    import faulthandler

    faulthandler.enable()
    faulthandler.dump_traceback_later(a["hard_timeout"], exit=True)
    import core
    import runner
    import sched

    core.load_openskill()
    sched.warm_up()
    prop, seed = a["prop"], a["seed"]
    hashseed = os.environ.get("PYTHONHASHSEED", "random")
    out = sys.stdout
    agg = {
        "type": "summary", "worker": a["start"], "runs": 0, "evaluations": 0, "stats": {}, "faults": {}, "probes": {}, "steps": 0,
        "uncaught": {}, "violations": 0, "entropy_calls": 0, "ops": 0, "runs_with_threads": 0, "clock_reads": 0, "pid_reads": 0,
    }
    nt = set()
    sigs = set()
    sites = set()
    lines = set()
    isites = set()
    ilines = set()
    digests = []
    samples = []
    nt_capped = False
    nviol = 0

    def merge(dst, src):
        for k, v in src.items():
            dst[k] = dst.get(k, 0) + v

    if a.get("hs_dir_in"):
        # phase 2 of the hash-seed check: replay recorded op lists under ANOTHER hash seed
        files = sorted(os.listdir(a["hs_dir_in"]))
        mine = [f for i, f in enumerate(files) if i % a["stride"] == a["start"]]
        for f in mine:
            if time.time() > a["deadline"]:
                break
            rec = json.load(open(os.path.join(a["hs_dir_in"], f)))
            ctx, v = runner.replay_run(rec)
            agg["runs"] += 1
            agg["evaluations"] += 1
            if v is not None or ctx.numdigest.hex() != rec["numdigest"]:
                rep = dict(rec)
                rep["violation_class"] = "C14/hashseed_dependent"
                rep["hashseeds"] = [rec["pythonhashseed"], hashseed]
                rep["observed"] = {"numdigest_a": rec["numdigest"], "numdigest_b": ctx.numdigest.hex(), "violation_b": v.to_json() if v else None}
                rep["minimised"] = False
                # minimise: cut the op list after the first op whose numbers differ
                a_log, b_log = rec.get("numlog", []), ctx.numlog
                first = None
                for x, y in zip(a_log, b_log):
                    if x != y:
                        first = x[0]
                        break
                if first is not None and first + 1 < len(rec["ops"]):
                    rep["original_ops"] = len(rec["ops"])
                    rep["ops"] = rec["ops"][: first + 1]
                    rep["observed"]["first_differing_op"] = first
                    rep["minimised"] = True
                for k in ("numlog", "numdigest", "digest"):
                    rep.pop(k, None)
                p = runner.write_replay(rep, a["scratch"])
                out.write(json.dumps({"type": "violation", "path": p, "cls": rep["violation_class"], "run": rec["run_index"]}) + "\n")
                agg["violations"] += 1
            elif ctx.digest.hex() != rec["digest"]:
                agg["stats"]["hs_event_digest_mismatch"] = agg["stats"].get("hs_event_digest_mismatch", 0) + 1
        out.write(json.dumps(agg) + "\n")
        out.flush()
        return 0

    for k in range(a["count"]):
        if time.time() > a["deadline"]:
            agg["stats"]["stopped_by_wall_guard"] = 1
            break
        idx = a["start"] + k * a["stride"]
        ctx, v = runner.gen_run(prop, seed, idx)
        agg["runs"] += 1
        agg["evaluations"] += ctx.evaluations
        agg["steps"] += ctx.steps
        agg["ops"] += len(ctx.ops_out)
        agg["entropy_calls"] += ctx.entropy_calls
        agg["clock_reads"] += getattr(ctx, "clock_reads", 0)
        agg["pid_reads"] += getattr(ctx, "pid_reads", 0)
        if ctx.sigs:
            agg["runs_with_threads"] += 1
        merge(agg["stats"], ctx.stats)
        merge(agg["faults"], ctx.faults)
        merge(agg["probes"], ctx.probes)
        merge(agg["uncaught"], ctx.uncaught)
        if len(nt) < NT_CAP:
            nt |= ctx.nontrivial
        else:
            nt_capped = True
        sigs |= ctx.sigs
        sites |= ctx.switch_sites
        lines |= ctx.lines_seen
        isites |= ctx.instr_sites
        ilines |= ctx.instr_seen
        if idx < a["digest_runs"]:
            digests.append([idx, ctx.digest.hex(), ctx.numdigest.hex()])
        if len(samples) < 1 and v is None and len(ctx.ops_out) > 3 and k >= 1:
            samples.append(sample_of(idx, ctx))
        if v is None and a.get("hs_dir_out") and idx < a["hs_sample"]:
            rec = {
                "format": runner.FORMAT, "property": prop, "verif_seed": seed, "run_index": idx, "pythonhashseed": hashseed,
                "entropy_seed": "%d:%d" % (seed, idx), "config": ctx.cfg, "params": ctx.params, "ops": ctx.ops_out,
                "numdigest": ctx.numdigest.hex(), "digest": ctx.digest.hex(), "numlog": ctx.numlog,
            }
            with open(os.path.join(a["hs_dir_out"], "%08d.json" % idx), "w") as f:
                json.dump(rec, f)
        if v is not None:
            rep = runner.make_replay(prop, seed, idx, ctx, v, hashseed)
            if known_match(a.get("known") or {}, prop, v.cls, rep) is not None:
                # a recorded, unrepaired defect: counted, one replay per worker, and the
                # search goes on (it must not use up the worker's violation allowance)
                key = "known_finding_hit:" + v.cls
                agg["stats"][key] = agg["stats"].get(key, 0) + 1
                if agg["stats"][key] > 1:
                    continue
            else:
                agg["violations"] += 1
                nviol += 1
            try:
                rep, ok = runner.shrink(rep, budget_s=a["shrink_budget"])
            except Exception as e:  # shrinking must never hide the violation
                rep["shrink_error"] = repr(e)
            p = runner.write_replay(rep, a["scratch"])
            out.write(json.dumps({"type": "violation", "path": p, "cls": v.cls, "run": idx}) + "\n")
            out.flush()
            if nviol >= a["max_viol"]:
                agg["stats"]["stopped_after_violations"] = 1
                break
    ntf = os.path.join(a["scratch"], "nt-%d.bin" % a["start"])
    with open(ntf, "wb") as f:
        array.array("Q", sorted(nt)).tofile(f)
    agg.update({"nt_file": ntf, "nt_capped": nt_capped, "sigs": len(sigs), "sites": sorted(map(list, sites)), "lines": sorted(map(list, lines)), "isites": len(isites), "ilines": len(ilines), "digests": digests, "samples": samples})
    sgf = os.path.join(a["scratch"], "sig-%d.json" % a["start"])
    with open(sgf, "w") as f:
        json.dump(sorted(sigs), f)
    agg["sig_file"] = sgf
    out.write(json.dumps(agg) + "\n")
    out.flush()
    return 0


def sample_of(idx, ctx):
    ops = []
    news = [o for o in ctx.ops_out if o.get("op") == "NEW"]
    rest = [o for o in ctx.ops_out if o.get("op") != "NEW"]
    for o in news[:3] + rest[:12]:
        o = json.loads(json.dumps(o))
        if o.get("op") == "INJECT":
            o["faults"] = o["faults"][:6] + ["... %d in total" % len(o["faults"])]
        if o.get("op") == "CONCURRENT" and len(o.get("schedule", [])) > 12:
            o["schedule"] = o["schedule"][:12] + ["... %d segments" % len(o["schedule"])]
        ops.append(o)
    return {"run_index": idx, "config": ctx.cfg, "params": ctx.params, "ops_total": len(ctx.ops_out), "new_ops_total": len(news),
            "shown": "first 3 NEW ops, then the first 12 other ops", "ops": ops}


# ====================================================================== parent


def spawn(args, hashseed):
    env = dict(os.environ)
    env["PYTHONHASHSEED"] = str(hashseed)
    env.pop("PYTHONDONTWRITEBYTECODE", None)
    env["LEAGUESIM_PYC"] = os.path.join(args["scratch"], "pyc")
    for k in list(env):
        if k.startswith("COVERAGE") or k.startswith("COV_CORE"):
            del env[k]
    return subprocess.Popen([PY, os.path.join(HERE, "check.py"), "--worker", json.dumps(args)], stdout=subprocess.PIPE, stderr=subprocess.PIPE, env=env, text=True)


def collect(procs, timeout):
    """-> (lines per proc, errors)"""
    import threading

    outs = [None] * len(procs)
    errs = [None] * len(procs)

    def rd(i, p):
        try:
            outs[i], errs[i] = p.communicate(timeout=timeout)
        except subprocess.TimeoutExpired:
            p.kill()
            outs[i], errs[i] = p.communicate()
            errs[i] = (errs[i] or "") + "\n[parent] worker killed after %.0fs" % timeout

    ths = [threading.Thread(target=rd, args=(i, p)) for i, p in enumerate(procs)]
    for t in ths:
        t.start()
    for t in ths:
        t.join()
    return outs, errs


def load_known():
    p = os.path.join(os.path.dirname(HERE), "known_findings.json")
    if not os.path.exists(p):
        return {"open": [], "fixed": []}
    return json.load(open(p))


def known_match(known, prop, cls, rep):
    for e in known.get("open", []):
        if e.get("property") != prop:
            continue
        if not cls.startswith(e.get("class", "\0")):
            continue
        m = e.get("model")
        if m and rep.get("config", {}).get("model") not in m:
            continue
        return e
    return None


def replay_fresh(path, expect_cls):
    """Replay in a fresh interpreter.  Returns (class reproduced or None, output).  A replay
    that ends in ANOTHER violation class of the same property is still a confirmed violation
    (a library whose behaviour has come to depend on memory addresses or on the allocator does
    not fail the same way twice): the file is then re-labelled with the class it does
    reproduce, so that replaying it reproduces what is reported."""
    r = subprocess.run([PY, os.path.join(HERE, "check.py"), "--replay", path, "--quiet"], capture_output=True, text=True, timeout=600)
    for line in r.stdout.splitlines():
        if line.startswith("REPRODUCED class="):
            got = line.split("=", 1)[1].strip()
            if got != expect_cls and got.split("/")[0] == expect_cls.split("/")[0]:
                rep = json.load(open(path))
                rep["violation_class_first_seen"] = rep.get("violation_class")
                rep["violation_class"] = got
                json.dump(rep, open(path, "w"), indent=1)
                r2 = subprocess.run([PY, os.path.join(HERE, "check.py"), "--replay", path, "--quiet"], capture_output=True, text=True, timeout=600)
                if ("REPRODUCED class=" + got) not in r2.stdout:
                    return None, r.stdout + r.stderr + r2.stdout + r2.stderr
            return (got if got.split("/")[0] == expect_cls.split("/")[0] else None), r.stdout + r.stderr
    return None, r.stdout + r.stderr


def main_check(prop, tier, seed, runs=None, budget=None, workers=None):
    t0 = time.time()
    import core

    if prop not in LEVEL:
        eprint("HARNESS-ERROR: property %s is not claimed (see MANIFEST.json not_applicable)" % prop)
        return 2
    n_runs, guard = TIERS[tier][prop]
    if runs:
        n_runs = runs
    if budget:
        guard = budget
    W = workers or NCPU
    scratch = tempfile.mkdtemp(prefix="leaguesim-%s-" % prop)
    hs_dir = None
    hashseeds = [0, 1, 2, 3]
    try:
        per = (n_runs + W - 1) // W
        base = {
            "prop": prop, "seed": seed, "stride": W, "count": per, "deadline": t0 + guard, "hard_timeout": guard * 3 + 300,
            "scratch": scratch, "shrink_budget": 30.0, "max_viol": 3, "digest_runs": 64, "hs_sample": HS_SAMPLE[tier],
            "known": load_known(),
        }
        if prop == "C14":
            hs_dir = os.path.join(scratch, "hs")
            os.makedirs(hs_dir)
            base["hs_dir_out"] = hs_dir
        procs = []
        for w in range(W):
            a = dict(base, start=w)
            procs.append(spawn(a, hashseeds[w % 2]))  # workers alternate between two hash seeds
        outs, errs = collect(procs, guard * 3 + 400)
        summaries, viols, herr = parse_outputs(procs, outs, errs)
        hs_summ = []
        if prop == "C14" and not herr and not viols:
            # phase 2: replay the recorded op lists under two other hash seeds
            procs2 = []
            t1 = time.time()
            for w in range(W):
                a = dict(base, start=w, hs_dir_in=hs_dir, deadline=t1 + max(30, guard / 2))
                a.pop("hs_dir_out", None)
                procs2.append(spawn(a, hashseeds[2 + (w % 2)]))
            outs2, errs2 = collect(procs2, guard * 2 + 300)
            hs_summ, v2, herr2 = parse_outputs(procs2, outs2, errs2)
            viols += v2
            herr += herr2
        return finish(prop, tier, seed, t0, scratch, summaries, hs_summ, viols, herr, W, n_runs)
    finally:
        shutil.rmtree(scratch, ignore_errors=True)


def parse_outputs(procs, outs, errs):
    summaries, viols, herr = [], [], []
    for i, p in enumerate(procs):
        got = False
        for line in (outs[i] or "").splitlines():
            line = line.strip()
            if not line.startswith("{"):
                continue
            try:
                d = json.loads(line)
            except ValueError:
                continue
            if d.get("type") == "violation":
                viols.append(d)
            elif d.get("type") == "summary":
                summaries.append(d)
                got = True
        if p.returncode != 0 or not got:
            herr.append("worker %d: exit %s, summary %s\n%s" % (i, p.returncode, got, (errs[i] or "")[-3000:]))
    return summaries, viols, herr


def finish(prop, tier, seed, t0, scratch, summaries, hs_summ, viols, herr, W, n_planned):
    import core

    known = load_known()
    agg = {"runs": 0, "evaluations": 0, "steps": 0, "ops": 0, "entropy_calls": 0, "runs_with_threads": 0, "clock_reads": 0, "pid_reads": 0}
    imax = [0, 0]
    stats, faults, probes, uncaught = {}, {}, {}, {}
    nt = set()
    sigs = set()
    sites = set()
    lines = set()
    samples = []
    capped = False
    digests = {}
    for s in summaries:
        for k in agg:
            agg[k] += s.get(k, 0)
        for dst, key in ((stats, "stats"), (faults, "faults"), (probes, "probes"), (uncaught, "uncaught")):
            for k, v in s.get(key, {}).items():
                dst[k] = dst.get(k, 0) + v
        capped = capped or s.get("nt_capped", False)
        if s.get("nt_file") and os.path.exists(s["nt_file"]):
            arr = array.array("Q")
            with open(s["nt_file"], "rb") as f:
                arr.frombytes(f.read())
            nt.update(arr)
        if s.get("sig_file") and os.path.exists(s["sig_file"]):
            sigs.update(json.load(open(s["sig_file"])))
        imax = [max(imax[0], s.get("isites", 0)), max(imax[1], s.get("ilines", 0))]
        sites.update(tuple(x) for x in s.get("sites", []))
        lines.update(tuple(x) for x in s.get("lines", []))
        samples += s.get("samples", [])
        for idx, d, nd in s.get("digests", []):
            digests[idx] = [d, nd]
    hs_runs = sum(s.get("runs", 0) for s in hs_summ)
    for s in hs_summ:
        for k, v in s.get("stats", {}).items():
            stats[k] = stats.get(k, 0) + v
    if hs_runs:
        faults["hashseed"] = hs_runs
        agg["evaluations"] += hs_runs
    wall = time.time() - t0

    # ---- violations: confirm each in a fresh interpreter, classify known / new
    reported = []
    known_lines = []
    seen_cls = set()
    tried = {}
    harness = list(herr)
    for v in sorted(viols, key=lambda d: (d["cls"], d["run"])):
        rep = json.load(open(v["path"]))
        # one report per class - and per known finding, so that a recorded defect can never
        # stand in for a different failure that happens to fall into the same class
        e0 = known_match(known, prop, v["cls"], rep)
        key = (v["cls"], e0.get("id") if e0 else None)
        if key in seen_cls or tried.get(key, 0) >= 3:
            continue
        tried[key] = tried.get(key, 0) + 1
        dest_dir = os.path.join(core.OUT_DIR, "replays", prop)
        os.makedirs(dest_dir, exist_ok=True)
        dest = os.path.join(dest_dir, os.path.basename(v["path"]))
        shutil.copyfile(v["path"], dest)
        got, outtxt = replay_fresh(dest, v["cls"])
        if got is None:
            # up to three candidates per class are tried before the class is given up
            harness.append("replay of %s in a fresh interpreter did not reproduce %s:\n%s" % (dest, v["cls"], outtxt[-2000:]))
            continue
        if got != v["cls"]:
            v = dict(v, cls=got)
            rep = json.load(open(dest))
            key = (got, None)
            if key in seen_cls:
                continue
        seen_cls.add(key)
        e = known_match(known, prop, v["cls"], rep)
        if e is not None:
            known_lines.append("KNOWN-FINDING: property=%s %s [class %s, replay %s]" % (prop, e.get("what", ""), v["cls"], dest))
        else:
            reported.append((v["cls"], dest))
        if len(reported) >= 8:
            break

    # ---- evidence
    n_dist = len(nt)
    cov = {
        "evaluations": int(agg["evaluations"]),
        "distinct_nontrivial": int(n_dist),
        "rule": RULES[prop] + ("; per-worker hash sets were capped at %d entries, so distinct_nontrivial is a lower bound" % NT_CAP if capped else ""),
        "samples": samples[:3] if samples else [{"note": "no sample collected"}],
        "exhaustive": False,
        "runs": agg["runs"],
        "runs_planned": n_planned,
        "seeds": agg["runs"],
        "runs_per_hour": int(agg["runs"] / wall * 3600) if wall > 0 else 0,
        "seeds_per_hour": int(agg["runs"] / wall * 3600) if wall > 0 else 0,
        "ops_executed": agg["ops"],
        "ops_by_kind": {k[3:]: v for k, v in sorted(stats.items()) if k.startswith("op:")},
        "simulated_time": {"unit": "scheduler steps (library line/opcode events under pre-emption); the library reads no clock, so steps are the simulator's only notion of time", "steps": agg["steps"], "sim_clock_reads": agg["clock_reads"], "sim_pid_reads": agg["pid_reads"]},
        "faults_fired": dict(sorted(faults.items())),
        "fault_kinds_not_applicable": NA_FAULTS,
        "probes": dict(sorted(probes.items())),
        "schedules": {
            "runs_with_threaded_phases": agg["runs_with_threads"],
            "threaded_phases": stats.get("threaded_phases", 0),
            "distinct_interleaving_signatures": len(sigs),
            "measure": "hash of the ordered list of (from thread, file:line) -> (to thread, file:line) context switches of a threaded phase",
            "context_switches": faults.get("preempt", 0),
            "switches_while_other_call_in_flight": stats.get("switches_overlapping", 0),
            "library_lines_switched_at": len(sites),
            "library_lines_executed_under_preemption": len(lines),
            "instruction_level": {"phases": stats.get("threaded_phases_instruction_level", 0), "instructions_switched_at_max_per_worker": imax[0], "instructions_executed_under_preemption_max_per_worker": imax[1]},
            "strategies": {k[9:]: v for k, v in sorted(stats.items()) if k.startswith("strategy:")},
            "shared_state_writes_observed": stats.get("writes_seen", 0),
            "write_directed_overlay_fired": stats.get("overlay_fired", 0),
        },
        "components": COMPONENTS,
        "uncaught_in_valid_calls": uncaught,
        "other_counters": {k: v for k, v in sorted(stats.items()) if not k.startswith(("op:", "strategy:"))},
        "hash_seeds": sorted(set([0, 1] + ([2, 3] if hs_runs else []))),
        "hashseed_replays": hs_runs,
        "entropy_draws": agg["entropy_calls"],
        "workers": W,
        "repo_digest": core.repo_digest(),
        "first_run_digests": {str(k): v for k, v in sorted(digests.items())[:8]},
        "known_findings_matched": len(known_lines),
    }
    ev = {
        "property_id": prop,
        "tier": tier,
        "seed": int(seed),
        "level": LEVEL[prop],
        "coverage": cov,
        "assumptions": [
            "sampled schedules/histories/restart points: a clean batch is evidence, not proof",
            "pre-emption points are CPython sys.monitoring (PEP 669) LINE/INSTRUCTION events in openskill code objects; sequential consistency between them; stdlib calls atomic",
            "oracles compare the real code with the real code under different circumstances: blind to a result that is wrong identically in every circumstance",
            "valid domain D of DESIGN.md 3.1 (Thurstone-Mosteller: kappa/(sqrt2*beta) <= 1e-2)",
        ],
        "wall_s": round(wall, 2),
        "violations": len(reported),
    }
    for k, must in PROBES_EXPECTED.get(prop, {}).items():
        if probes.get(k, faults.get(k, 0)) < must:
            ev["assumptions"].append("probe '%s' stayed below %d in this batch (%d): that corner was not reached" % (k, must, probes.get(k, faults.get(k, 0))))
    evdir = os.path.join(core.OUT_DIR, "evidence")
    os.makedirs(evdir, exist_ok=True)
    with open(os.path.join(evdir, "%s.json" % prop), "w") as f:
        json.dump(ev, f, indent=1)

    print("%s tier=%s seed=%d runs=%d evaluations=%d distinct_nontrivial=%d wall=%.1fs faults=%s" % (prop, tier, seed, agg["runs"], agg["evaluations"], n_dist, wall, json.dumps(dict(sorted(faults.items())))))
    for l in known_lines:
        print(l)
    for cls, dest in reported:
        print("VIOLATION property=%s replay=%s class=%s" % (prop, dest, cls))
    if harness:
        for h in harness:
            eprint("HARNESS-ERROR: " + h)
        if not reported:
            print("HARNESS-ERROR property=%s (see stderr)" % prop)
            return 2
    if agg["runs"] == 0:
        print("HARNESS-ERROR property=%s no run completed" % prop)
        return 2
    return 1 if reported else 0


PROBES_EXPECTED = {
    "C06": {"clamp_fired": 1, "sigma_rose": 1, "kappa_floor": 1, "tm_far_upset_or_tie": 1, "per_call_tau0_over_model_tau": 1, "per_call_nolimit_over_model_limit": 1},
    "C14": {"preempt": 1, "malformed": 1, "crash_line": 1},
    "C15": {"option_live": 1, "tau:zero_int": 1, "tau:zero_float": 1},
    "C20": {"restart_between_games_of_player": 1, "game_mixing_restored_and_original": 1, "restore_zero_value": 1, "crash_after_mutation": 1, "deepcopy_nested": 1},
}


# ====================================================================== replay


def main_replay(path, quiet=False):
    rep = json.load(open(path))
    hs = rep.get("pythonhashseed")
    if "hashseeds" in rep and not os.environ.get("LEAGUESIM_NUMDIGEST"):
        # hash-seed dependence: run the op list under both seeds, compare number digests
        nds = []
        for h in rep["hashseeds"]:
            env = dict(os.environ, PYTHONHASHSEED=str(h), LEAGUESIM_NUMDIGEST="1")
            r = subprocess.run([PY, os.path.join(HERE, "check.py"), "--replay", path, "--quiet"], capture_output=True, text=True, env=env, timeout=600)
            nd = [l for l in r.stdout.splitlines() if l.startswith("NUMDIGEST ")]
            nds.append(nd[0] if nd else r.stdout[-200:])
        if nds[0] != nds[1]:
            print("REPRODUCED class=C14/hashseed_dependent")
            print("VIOLATION property=%s replay=%s class=%s" % (rep["property"], path, rep["violation_class"]))
            return 1
        print("NOT-REPRODUCED expected=%s" % rep["violation_class"])
        return 0
    if hs not in (None, "random") and os.environ.get("PYTHONHASHSEED") != str(hs) and not os.environ.get("LEAGUESIM_NUMDIGEST"):
        env = dict(os.environ, PYTHONHASHSEED=str(hs))
        return subprocess.call([PY, os.path.join(HERE, "check.py"), "--replay", path] + (["--quiet"] if quiet else []), env=env)
    import core
    import runner
    import sched

    core.load_openskill()
    sched.warm_up()
    ctx, v = runner.replay_run(rep)
    if os.environ.get("LEAGUESIM_NUMDIGEST"):
        print("NUMDIGEST %s %s" % (ctx.numdigest.hex(), v.cls if v else "-"))
        return 0
    if v is None:
        print("NOT-REPRODUCED expected=%s (no violation on this tree)" % rep.get("violation_class"))
        return 0
    print("REPRODUCED class=%s" % v.cls)
    if not quiet:
        print(json.dumps(v.detail, indent=1)[:4000])
    print("VIOLATION property=%s replay=%s class=%s" % (rep["property"], path, v.cls))
    return 1


def main(argv):
    if len(argv) >= 2 and argv[0] == "--worker":
        return worker_main(json.loads(argv[1]))
    if argv and argv[0] == "--replay":
        return main_replay(argv[1], quiet="--quiet" in argv)
    import argparse

    ap = argparse.ArgumentParser()
    ap.add_argument("prop")
    ap.add_argument("--tier", default=os.environ.get("VERIF_TIER", "quick"), choices=["quick", "thorough"])
    ap.add_argument("--seed", type=int, default=None)
    ap.add_argument("--runs", type=int, default=None)
    ap.add_argument("--budget", type=float, default=None)
    ap.add_argument("--workers", type=int, default=None)
    a = ap.parse_args(argv)
    seed = a.seed if a.seed is not None else int(os.environ.get("VERIF_SEED", "1" if a.tier == "quick" else "2"))
    try:
        return main_check(a.prop, a.tier, seed, a.runs, a.budget, a.workers)
    except Exception as e:
        import traceback

        traceback.print_exc()
        print("HARNESS-ERROR property=%s %r" % (a.prop, e))
        return 2


if __name__ == "__main__":
    sys.exit(main(sys.argv[1:]))
