#!/bin/bash
# every claimed check at the thorough tier, evidence to a scratch dir; one line per check
cd "$(dirname "$0")/.."
OUT=$(mktemp -d /tmp/thorough-XXXXXX)
bad=0
for p in ${@:-C13 C14 C15 C06 C20}; do
  LEAGUESIM_OUT=$OUT /venv/bin/python sim/check.py $p --tier thorough > $OUT/log 2>&1; rc=$?
  echo "$p exit=$rc $(head -1 $OUT/log | cut -c1-160)"
  if [ $rc -ne 0 ]; then bad=1; grep "VIOLATION\|HARNESS" $OUT/log | head -5; mkdir -p /verif/replays/thorough; cp -r $OUT/replays/* /verif/replays/thorough/ 2>/dev/null; fi
done
rm -rf $OUT
exit $bad
