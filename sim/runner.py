"""Run one simulated execution (generated from a seed, or from a replay file), shrink a
failing one, write/read replay files."""
import copy
import json
import os
import time

from core import OUT_DIR, REPO, VERIF_DIR, Entropy, HarnessError, Streams, Violation, canon, repo_digest
from drivers import DRIVERS, Ctx
from league import gen_config

FORMAT = 1


def _execute(ctx, entropy_seed):
    """One run, on a FRESH import of the library: module globals, class dictionaries, function
    defaults and caches start pristine, so no run can see an earlier one (one seed = one
    execution).  State a run leaves behind in the library is not a violation by itself (a
    transparent cache keeps every property); it is recorded in ctx.module_state_left and what
    it does to results is judged by the oracles."""
    import core
    from oracles import diff_state, module_state

    import hashlib
    import random as _random

    core.load_openskill(fresh=True)
    before = module_state()
    viol = None
    # the GLOBAL random module is a seam too: seeded per run (the library does not use it
    # today; a change that starts to stays replayable), and re-seeded with the same value by
    # the RESEED_RANDOM fault
    ctx.random_seed = int.from_bytes(hashlib.sha256(("random:%s" % entropy_seed).encode()).digest()[:6], "big")
    _random.seed(ctx.random_seed)
    with Entropy(entropy_seed) as ent, core.SimClock() as clk:
        drv = DRIVERS[ctx.prop][0](ctx)
        try:
            drv.run()
        except Violation as v:
            viol = v
    ctx.entropy_calls = ent.calls
    ctx.clock_reads = clk.reads
    ctx.pid_reads = clk.pid_reads
    d = diff_state(before, module_state())
    ctx.module_state_left = d[:5]
    if d:
        ctx.count("runs_leaving_module_state")
    return viol


def gen_run(prop, seed, run_idx, want=None, force=None):
    streams = Streams(seed, run_idx)
    crng = streams.get("config")
    cfg = gen_config(crng, want)
    params = DRIVERS[prop][1](crng)
    if force:
        params.update(force)
    ctx = Ctx(prop, cfg, params, streams)
    viol = _execute(ctx, "%d:%d" % (seed, run_idx))
    if viol is None and ctx.module_state_left and "pristine_refs" in params and not params["pristine_refs"]:
        # the library kept state across calls: repeat the run with every reference execution
        # in its own pristine import, so that the state cannot hide in both sides of a comparison
        ctx2, viol2 = gen_run(prop, seed, run_idx, want, dict(force or {}, pristine_refs=True))
        ctx2.count("reruns_with_pristine_references")
        return ctx2, viol2
    return ctx, viol


def replay_run(rep):
    ctx = Ctx(rep["property"], rep["config"], rep.get("params", {}), None, copy.deepcopy(rep["ops"]))
    viol = _execute(ctx, rep["entropy_seed"])
    return ctx, viol


def make_replay(prop, seed, run_idx, ctx, viol, hashseed):
    return {
        "format": FORMAT,
        "property": prop,
        "violation_class": viol.cls,
        "verif_seed": seed,
        "run_index": run_idx,
        "pythonhashseed": hashseed,
        "entropy_seed": "%d:%d" % (seed, run_idx),
        "repo_digest": repo_digest(),
        "config": ctx.cfg,
        "params": ctx.params,
        "ops": ctx.ops_out[: (viol.op_index + 1) if viol.op_index is not None else None],
        "observed": viol.detail,
        "original_ops": len(ctx.ops_out),
        "minimised": False,
    }


# ------------------------------------------------------------------ shrinking


def _same(rep, ops, target):
    r = dict(rep, ops=ops)
    try:
        ctx, v = replay_run(r)
    except HarnessError:
        return None
    except Exception:
        return None
    if v is not None and v.cls == target:
        return v
    return None


def shrink(rep, budget_s=30.0):
    """Delta-debug the op list and the failing op while the SAME violation class persists."""
    t0 = time.time()
    target = rep["violation_class"]
    ops = rep["ops"]
    v0 = _same(rep, ops, target)
    if v0 is None:
        return rep, False  # does not even reproduce in-process: caller decides
    best_v = v0
    tries = 0

    def ok(cand):
        nonlocal best_v, tries
        tries += 1
        if time.time() - t0 > budget_s:
            return False
        v = _same(rep, cand, target)
        if v is not None:
            best_v = v
            return True
        return False

    # 0. collapse the history into the state it produced: NEW ops holding the values the
    #    failing call saw, then the failing op alone (works when history does not matter)
    d = v0.detail or {}
    last = ops[-1]
    inner = last.get("inner", last)
    if isinstance(d.get("snap"), list) and inner.get("op") in ("RATE", "PREDICT") and inner.get("teams") and d.get("op", inner).get("teams") == inner.get("teams"):
        news = []
        try:
            for t, ts in zip(inner["teams"], d["snap"]):
                for nm, (mu, sg) in zip(t, ts):
                    news.append({"op": "NEW", "name": nm, "mu": mu, "sigma": sg})
            cand = news + [last]
            if len(cand) < len(ops) and ok(cand):
                ops = cand
        except Exception:
            pass
    # 1. ddmin over whole ops (keep the last op, which is the failing one, in place)
    n = 2
    while len(ops) > 1 and time.time() - t0 < budget_s:
        chunk = max(1, (len(ops) - 1) // n)
        removed = False
        i = 0
        while i < len(ops) - 1:
            cand = ops[:i] + ops[min(i + chunk, len(ops) - 1):]
            if len(cand) < len(ops) and ok(cand):
                ops = cand
                removed = True
            else:
                i += chunk
        if not removed:
            if chunk == 1:
                break
            n = min(len(ops), n * 2)
    # 2. inside CONCURRENT ops: drop threads, drop ops, simplify schedule
    for idx in range(len(ops)):
        if time.time() - t0 > budget_s:
            break
        o = ops[idx]
        if o.get("op") != "CONCURRENT":
            continue
        changed = True
        while changed and time.time() - t0 < budget_s:
            changed = False
            o = ops[idx]
            # drop an op inside a thread
            for ti in range(len(o["threads"])):
                for k in range(len(o["threads"][ti]) - 1, -1, -1):
                    c = copy.deepcopy(o)
                    del c["threads"][ti][k]
                    if sum(len(t) for t in c["threads"]) < 1:
                        continue
                    if "crash" in c and c["crash"][0] == ti and c["crash"][1] >= k:
                        continue
                    c["seq_orders"] = [[t for t, th in enumerate(c["threads"]) for _ in th][::-1]]
                    cand = ops[:idx] + [c] + ops[idx + 1:]
                    if ok(cand):
                        ops = cand
                        o = c
                        changed = True
            # schedule: serial first, then merge segments
            sch = o.get("schedule", [])
            if len(sch) > len(o["threads"]):
                c = copy.deepcopy(o)
                c["schedule"] = [[t, 10 ** 9] for t in range(len(o["threads"]))]
                cand = ops[:idx] + [c] + ops[idx + 1:]
                if ok(cand):
                    ops = cand
                    o = c
                    changed = True
                    continue
                # remove one segment at a time (gives its steps to the previous one)
                k = 0
                while k < len(o["schedule"]) and time.time() - t0 < budget_s:
                    if len(o["schedule"]) <= 2:
                        break
                    c = copy.deepcopy(o)
                    seg = c["schedule"].pop(k)
                    # re-merge neighbours of equal thread
                    merged = []
                    for s in c["schedule"]:
                        if merged and merged[-1][0] == s[0]:
                            merged[-1][1] += s[1]
                        else:
                            merged.append(list(s))
                    c["schedule"] = merged
                    cand = ops[:idx] + [c] + ops[idx + 1:]
                    if ok(cand):
                        ops = cand
                        o = c
                        changed = True
                    else:
                        k += 1
            if o.get("gran") == "opcode":
                pass  # an opcode schedule has no line-level equivalent; kept
    # 3. simplify individual ops: drop options / outcome encodings / players / NEW values
    def simplify_call(o):
        cands = []
        for key in ("tau", "limit_sigma", "ranks", "scores"):
            if key in o:
                c = dict(o)
                del c[key]
                cands.append(c)
        if "teams" in o and len(o["teams"]) > 2 and "ranks" not in o and "scores" not in o:
            for i in range(len(o["teams"])):
                c = dict(o)
                c["teams"] = o["teams"][:i] + o["teams"][i + 1:]
                cands.append(c)
        if "teams" in o:
            for i, t in enumerate(o["teams"]):
                if len(t) > 1:
                    c = dict(o)
                    c["teams"] = [list(x) for x in o["teams"]]
                    c["teams"][i] = t[:-1]
                    cands.append(c)
        return cands

    for idx in range(len(ops) - 1, -1, -1):
        if time.time() - t0 > budget_s:
            break
        progress = True
        while progress and time.time() - t0 < budget_s:
            progress = False
            o = ops[idx]
            kind = o.get("op")
            cands = []
            if kind in ("RATE", "PREDICT"):
                cands = simplify_call(o)
            elif kind == "CRASH":
                cands = [dict(o, inner=c) for c in simplify_call(o["inner"])]
                cands.append(o["inner"])
            elif kind == "NEW":
                for key in ("mu", "sigma"):
                    if key in o:
                        c = dict(o)
                        del c[key]
                        cands.append(c)
            elif kind == "RESTART" and len(o.get("scope", [])) > 1:
                for i in range(len(o["scope"])):
                    c = dict(o)
                    c["scope"] = o["scope"][:i] + o["scope"][i + 1:]
                    c["paths"] = o["paths"][:i] + o["paths"][i + 1:]
                    cands.append(c)
            elif kind == "INJECT":
                if len(o["faults"]) > 1:
                    # the failing fault is the one named in the violation class
                    for f in o["faults"]:
                        cands.append(dict(o, faults=[f], twins=False))
                    cands.append(dict(o, faults=[], twins=True))
            elif kind == "CONCURRENT":
                for ti, th in enumerate(o["threads"]):
                    for k, so in enumerate(th):
                        for c in simplify_call(so) if so.get("op") in ("RATE", "PREDICT") else []:
                            cc = copy.deepcopy(o)
                            cc["threads"][ti][k] = c
                            cands.append(cc)
            for c in cands:
                cand = ops[:idx] + [c] + ops[idx + 1:]
                if ok(cand):
                    ops = cand
                    progress = True
                    break
    out = dict(rep, ops=ops, observed=best_v.detail, minimised=True, shrink_tries=tries)
    return out, True


def write_replay(rep, directory=None):
    d = directory or os.path.join(OUT_DIR, "replays", rep["property"])
    os.makedirs(d, exist_ok=True)
    p = os.path.join(d, "%d-%d.json" % (rep["verif_seed"], rep["run_index"]))
    with open(p, "w") as f:
        json.dump(rep, f, indent=1, sort_keys=True)
    return p
