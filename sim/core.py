"""Core of the league simulator: repo import, seeded streams, value encoding, digests.

Everything random in a run is drawn from `Streams(seed, run)`; nothing here reads a clock or
the global `random` module.  Logging never draws from a stream.
"""
import hashlib
import importlib
import json
import math
import os
import random
import sys

VERIF_DIR = os.path.dirname(os.path.dirname(os.path.abspath(__file__)))
REPO = os.path.abspath(os.environ.get("VERIF_REPO", "/repo"))
# evidence/ and replays/ go under OUT_DIR (mutant experiments redirect them to a scratch dir)
OUT_DIR = os.path.abspath(os.environ.get("LEAGUESIM_OUT", VERIF_DIR))

MODEL_NAMES = [
    "PlackettLuce",
    "BradleyTerryFull",
    "BradleyTerryPart",
    "ThurstoneMostellerFull",
    "ThurstoneMostellerPart",
]

_openskill = None


class HarnessError(Exception):
    """Something is wrong with the harness or its environment - never a VIOLATION."""


def _setup_pycache():
    """Compiled files go to a scratch prefix (never into the repository), so that re-importing
    the library - done before every run - costs milliseconds."""
    pre = os.environ.get("LEAGUESIM_PYC")
    if pre:
        sys.pycache_prefix = pre
        sys.dont_write_bytecode = False
    else:
        sys.dont_write_bytecode = True


def _lib_keys():
    return [k for k in sys.modules if k == "openskill" or k.startswith("openskill.")]


def load_openskill(fresh=False):
    """Import the library from VERIF_REPO's working tree (never from a stale install).
    fresh=True forgets any earlier import first: module globals, class dictionaries, function
    defaults and caches all start pristine."""
    global _openskill
    if _openskill is not None and not fresh:
        return _openskill
    _setup_pycache()
    try:
        import sched

        sched.install_lock_seam()
    except ImportError:
        pass
    if REPO in sys.path:
        sys.path.remove(REPO)
    sys.path.insert(0, REPO)
    for k in _lib_keys():
        del sys.modules[k]
    import openskill  # noqa

    import openskill.models as models  # noqa

    path = os.path.abspath(openskill.__file__)
    if not path.startswith(REPO + os.sep):
        raise HarnessError("openskill imported from %s, expected under %s" % (path, REPO))
    _openskill = models
    try:
        import sched

        sched._codes = None
        sched._extra_codes = []
    except ImportError:
        pass
    return models


def fresh_models(instrument=False):
    """A second, independent import of the library (its own module globals and caches) that
    leaves the main copy in sys.modules untouched.  Used for pristine reference executions
    and for the restarted process of league B (then `instrument`: its code objects join the
    set the crash injector and the scheduler put events on)."""
    load_openskill()
    saved = {k: sys.modules.pop(k) for k in _lib_keys()}
    try:
        import openskill.models as m  # noqa

        if instrument:
            import sched

            sched.register_modules([sys.modules[k] for k in _lib_keys()])
        return m
    finally:
        for k in _lib_keys():
            del sys.modules[k]
        sys.modules.update(saved)


def reload_library():
    return load_openskill(fresh=True)


def pkg_dir():
    return os.path.join(REPO, "openskill") + os.sep


def model_class(name, lib=None):
    return getattr(lib if lib is not None else load_openskill(), name)


def library_modules():
    load_openskill()
    return [m for k, m in sorted(sys.modules.items()) if k == "openskill" or k.startswith("openskill.")]


def repo_digest():
    h = hashlib.sha256()
    root = os.path.join(REPO, "openskill")
    for d, _, files in sorted(os.walk(root)):
        for f in sorted(files):
            if f.endswith(".py"):
                p = os.path.join(d, f)
                h.update(os.path.relpath(p, root).encode())
                h.update(open(p, "rb").read())
    return h.hexdigest()[:16]


# ------------------------------------------------------------------ streams


class Streams:
    """Independent PRNG streams derived from one integer (plus run index)."""

    def __init__(self, seed, run):
        self.seed = int(seed)
        self.run = int(run)
        self._cache = {}

    def get(self, name):
        r = self._cache.get(name)
        if r is None:
            d = hashlib.sha256(("%d:%d:%s" % (self.seed, self.run, name)).encode()).digest()
            r = random.Random(int.from_bytes(d[:16], "big"))
            self._cache[name] = r
        return r


class Entropy:
    """Replacement for os.urandom during a run: bytes from a seeded stream."""

    current = None  # the Entropy object in force (one run at a time per process)

    def __init__(self, seed_text):
        self.seed_text = seed_text
        d = hashlib.sha256(("entropy:%s" % seed_text).encode()).digest()
        self._rng = random.Random(int.from_bytes(d[:16], "big"))
        self.calls = 0
        self._real = None

    def in_child(self, k):
        """After a simulated fork: the OS hands a child process other random bytes than its
        parent (kernel entropy is not copied by fork), so the child gets its own stream."""
        d = hashlib.sha256(("entropy:%s:child:%s" % (self.seed_text, k)).encode()).digest()
        self._rng = random.Random(int.from_bytes(d[:16], "big"))

    def urandom(self, n):
        self.calls += 1
        return self._rng.getrandbits(8 * n).to_bytes(n, "big") if n else b""

    def __enter__(self):
        self._real = os.urandom
        os.urandom = self.urandom
        Entropy.current = self
        return self

    def __exit__(self, *a):
        os.urandom = self._real
        Entropy.current = None
        return False


class SimClock:
    """The simulator's clock and process id.  The library reads neither today (probe
    `sim_clock_reads` is expected to stay 0); a change that starts to - e.g. ids built from
    time and pid - meets a clock that ticks 1 ms per read, can be set back (a restarted
    process, clock skew) and a pid that every restarted process gets again."""

    current = None
    NAMES = ("time", "time_ns", "monotonic", "monotonic_ns", "perf_counter", "perf_counter_ns")

    def __init__(self, start_ns=1_700_000_000_000_000_000):
        self.start = start_ns
        self.now = start_ns
        self.reads = 0
        self.pid_reads = 0
        self._saved = {}

    def _tick(self):
        self.reads += 1
        self.now += 1_000_000
        return self.now

    def jump_back(self):
        self.now = self.start

    def __enter__(self):
        import time as _time

        for n in self.NAMES:
            self._saved[n] = getattr(_time, n)
        _time.time = lambda: self._tick() / 1e9
        _time.time_ns = lambda: self._tick()
        _time.monotonic = lambda: (self._tick() - self.start) / 1e9
        _time.monotonic_ns = lambda: self._tick() - self.start
        _time.perf_counter = lambda: (self._tick() - self.start) / 1e9
        _time.perf_counter_ns = lambda: self._tick() - self.start
        self._saved["getpid"] = os.getpid
        real_pid = os.getpid

        def getpid():
            import sys as _sys

            f = _sys._getframe(1)
            # only callers inside the library (or the stdlib modules it calls for ids) see the
            # simulated pid; the harness itself keeps the real one
            fn = f.f_code.co_filename
            if fn.startswith(pkg_dir()) or fn.endswith(("uuid.py", "random.py")):
                self.pid_reads += 1
                return 4242
            return real_pid()

        os.getpid = getpid
        SimClock.current = self
        return self

    def __exit__(self, *a):
        import time as _time

        for n in self.NAMES:
            setattr(_time, n, self._saved[n])
        os.getpid = self._saved["getpid"]
        SimClock.current = None
        return False


# ------------------------------------------------------------------ value encoding


def enc(v):
    """JSON-able, type-preserving encoding of a number (float -> hex string)."""
    if v is None or isinstance(v, (bool, int)):
        return v
    if isinstance(v, float):
        if v != v:
            return "nan"
        return v.hex()
    if isinstance(v, (list, tuple)):
        return [enc(x) for x in v]
    if isinstance(v, str):
        return {"$s": v}
    return {"$repr": repr(v)[:80]}


def dec(v):
    if isinstance(v, str):
        if v == "nan":
            return float("nan")
        return float.fromhex(v)
    if isinstance(v, list):
        return [dec(x) for x in v]
    if isinstance(v, dict):
        if "$s" in v:
            return v["$s"]
        raise ValueError("cannot decode %r" % (v,))
    return v


def canon(obj):
    """Canonical JSON text (sorted keys, no spaces) - used for hashing cases."""
    return json.dumps(obj, sort_keys=True, separators=(",", ":"))


def h64(obj):
    return int.from_bytes(hashlib.blake2b(canon(obj).encode(), digest_size=8).digest(), "big")


class Digest:
    """Running SHA-256 over an event log."""

    def __init__(self):
        self._h = hashlib.sha256()
        self.n = 0

    def add(self, obj):
        self._h.update(canon(obj).encode())
        self._h.update(b"\n")
        self.n += 1

    def hex(self):
        return self._h.hexdigest()[:24]


def finite(x):
    return isinstance(x, (int, float)) and not isinstance(x, bool) and math.isfinite(x)


# ------------------------------------------------------------------ violations


class Violation(Exception):
    def __init__(self, prop, cls, detail=None, op_index=None):
        Exception.__init__(self, "%s %s" % (prop, cls))
        self.prop = prop
        self.cls = cls
        self.detail = detail or {}
        self.op_index = op_index

    def to_json(self):
        return {"property": self.prop, "class": self.cls, "detail": self.detail, "op_index": self.op_index}
