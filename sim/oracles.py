"""Oracles: state snapshots and reference executions.  All number comparisons are on the
type-preserving encoding of core.enc (float.hex -> bit equality)."""
import math
import sys
import types

from core import Violation, dec, enc, library_modules
from league import build_model, do_predict, result_values

# ------------------------------------------------------------------ canonical state


import weakref as _weakref

_WEAK = (_weakref.WeakValueDictionary, _weakref.WeakKeyDictionary, _weakref.WeakSet, _weakref.ReferenceType)


def _canon(v, depth, ids):
    if isinstance(v, _WEAK):
        # contents follow the garbage collector, not the calls: never compared
        return ["weak", type(v).__name__]
    if getattr(type(v), "_leaguesim_opaque", False):
        # a harness-owned object handed to the library (a stateful gamma callback): its own
        # bookkeeping is not model state
        return ["harness", type(v).__name__] + ([id(v)] if ids else [])
    if v is None or isinstance(v, (bool, int, str, bytes)):
        return [type(v).__name__, v if not isinstance(v, bytes) else v.hex()]
    if isinstance(v, float):
        return ["float", v.hex() if v == v else "nan"]
    if isinstance(v, (list, tuple)):
        return [type(v).__name__, [_canon(x, depth + 1, ids) for x in v]]
    if isinstance(v, dict):
        return ["dict", sorted(([repr(k), _canon(x, depth + 1, ids)] for k, x in list(v.items())), key=lambda z: z[0])]
    if isinstance(v, (set, frozenset)):
        return [type(v).__name__, sorted(repr(_canon(x, depth + 1, ids)) for x in list(v))]
    if isinstance(v, (types.FunctionType, types.BuiltinFunctionType, types.MethodType, type, types.ModuleType)):
        nm = getattr(v, "__qualname__", getattr(v, "__name__", "?"))
        out = ["obj", "%s.%s" % (getattr(v, "__module__", "?"), nm)]
        if ids:
            out.append(id(v))
        if isinstance(v, types.FunctionType) and depth < 4:
            out.append(_canon(v.__defaults__, depth + 1, ids))
            out.append(_canon(v.__kwdefaults__, depth + 1, ids))
        return out
    ci = getattr(v, "cache_info", None)
    if callable(ci) and hasattr(v, "__wrapped__"):
        try:
            info = ci()
            return ["lru", getattr(v, "__qualname__", "?"), [info.hits, info.misses, info.currsize]]
        except Exception:
            pass
    if isinstance(v, (staticmethod, classmethod)):
        return ["wrapped", _canon(v.__func__, depth + 1, ids)]
    d = getattr(v, "__dict__", None)
    if d is not None and depth < 4:
        return ["inst", type(v).__name__, _canon(dict(d), depth + 1, ids)]
    sl = getattr(type(v), "__slots__", None)
    if sl and depth < 4:
        return ["inst", type(v).__name__, [[s, _canon(getattr(v, s, None), depth + 1, ids)] for s in sl]]
    return ["opaque", type(v).__name__] + ([id(v)] if ids else [])


def instance_attrs(obj):
    d = {}
    for klass in type(obj).__mro__:
        sl = klass.__dict__.get("__slots__", ())
        if isinstance(sl, str):
            sl = (sl,)
        for name in sl:
            if name in ("__dict__", "__weakref__"):
                continue
            try:
                d[name] = getattr(obj, name)
            except AttributeError:
                pass
    d.update(getattr(obj, "__dict__", {}))
    return d


def model_state(model, ids=True):
    """Canonical snapshot of the model instance: attr -> canonical value."""
    return {k: _canon(v, 0, ids) for k, v in instance_attrs(model).items()}


def diff_state(a, b):
    """Names whose canonical value differs between two snapshots."""
    out = []
    for k in sorted(set(a) | set(b)):
        if a.get(k) != b.get(k):
            out.append(k)
    return out


_SKIP_GLOBALS = {"__builtins__", "__cached__", "__loader__", "__spec__", "__doc__", "__file__", "__path__"}


def module_state(ids=True):
    """Canonical snapshot of every openskill.* module global and class dictionary."""
    out = {}
    for m in library_modules():
        for k, v in list(vars(m).items()):
            if k in _SKIP_GLOBALS:
                continue
            if isinstance(v, types.ModuleType):
                out["%s.%s" % (m.__name__, k)] = ["module", v.__name__]
                continue
            out["%s.%s" % (m.__name__, k)] = _canon(v, 1, ids)
            if isinstance(v, type) and getattr(v, "__module__", None) == m.__name__:
                for ck, cv in list(vars(v).items()):
                    if ck in ("__dict__", "__weakref__", "__doc__"):
                        continue
                    out["%s.%s.%s" % (m.__name__, k, ck)] = _canon(cv, 1, ids)
    return out


# ------------------------------------------------------------------ argument snapshots


def snap_teams(teams):
    return [[[enc(p.mu), enc(p.sigma)] for p in t] for t in teams]


def mk_rating(model, mu, sigma, name, stats=None):
    """Build a rating holding exactly (mu, sigma) - through the public constructor, verified."""
    r = model.rating(mu=mu, sigma=sigma, name=name)
    if enc(r.mu) != enc(mu) or enc(r.sigma) != enc(sigma):
        # rating() does not hold the given values (that is C20's business): assign directly
        if stats is not None:
            stats["ref_build_mismatch"] = stats.get("ref_build_mismatch", 0) + 1
        try:
            r.mu = mu
            r.sigma = sigma
        except AttributeError:
            pass
    return r


def rebuild(model, snap, prefix, stats=None, ids=None):
    """Fresh rating objects holding the snapshot values, with other names and ids.  `ids`
    selects how ids are assigned (results must not depend on them): None = the fresh uuid4s,
    'same' = every rating carries the same id, 'reversed' = fresh ids re-dealt in descending
    order."""
    nm = (ids or "fresh")
    n_all = sum(len(t) for t in snap)

    def name(i, j, k):
        # results must not depend on names either: vary them with the id mode
        if nm == "same":
            return "x"
        if nm == "reversed":
            return "%s_%04d" % (prefix, n_all - k)
        if nm == "sorted":
            return None
        return "%s_%d_%d" % (prefix, i, j)

    teams = []
    k = 0
    for i, t in enumerate(snap):
        row = []
        for j, (mu, sg) in enumerate(t):
            row.append(mk_rating(model, dec(mu), dec(sg), name(i, j, k), stats))
            k += 1
        teams.append(row)
    if ids == "same":
        for t in teams:
            for p in t:
                p.id = "0" * 32
    elif ids == "reversed":
        allp = [p for t in teams for p in t]
        for p, i in zip(allp, sorted((p.id for p in allp), reverse=True)):
            p.id = i
    elif ids == "sorted":
        allp = [p for t in teams for p in t]
        for p, i in zip(allp, sorted(p.id for p in allp)):
            p.id = i
    return teams


def id_mode(snap):
    """Deterministic (PRNG-free) choice of the id assignment for a reference execution."""
    from core import h64

    return [None, "same", "reversed", "sorted"][h64(snap) % 4]


def ref_rate(cfg, snap, kw, prefix="iso", tau=None, limit_sigma=None, stats=None, lib=None, ids=None, warm=False):
    """The same rate call on a fresh model and fresh ratings. -> ('ok', enc) | ('exc', name).
    `warm`: the fresh model first serves an unrelated game, so that the compared call is not
    always the FIRST call of a model's life."""
    m = build_model(cfg, tau=tau, limit_sigma=limit_sigma, lib=lib, reference=True)
    if warm:
        try:
            m.rate([[m.rating()], [m.rating(), m.rating()], [m.rating()]], ranks=[2, 1, 2])
            m.predict_draw([[m.rating()], [m.rating()]])
        except Exception:
            pass
    teams = rebuild(m, snap, prefix, stats, ids)
    try:
        res = m.rate(teams, **kw)
    except Exception as e:
        return ("exc", type(e).__name__)
    return ("ok", enc(result_values(res)))


def ref_predict(cfg, snap, kind, prefix="iso", stats=None, lib=None, ids=None):
    m = build_model(cfg, lib=lib, reference=True)
    teams = rebuild(m, snap, prefix, stats, ids)
    try:
        res = do_predict(m, kind, teams)
    except Exception as e:
        return ("exc", type(e).__name__)
    return ("ok", enc(res))


# ------------------------------------------------------------------ O_sigma


TOL = 1e-14


def tau_bound(s0, tau):
    """sqrt(s0^2 + tau^2) as ANY correct implementation may form it: the naive expression (whose
    squares lose most of their bits when they are subnormal: a tau of 1e-160 has a square of
    1e-320) or the scaled one (math.hypot, exact there).  The larger of the two is the bound -
    the property bounds the real number, not one particular rounding of it."""
    return max(math.sqrt(s0 * s0 + tau * tau), math.hypot(s0, tau))


def check_sigma(prior, post, tau, limit, where):
    """prior/post: nested lists of [mu, sigma] values (decoded). Raises Violation (C06)."""
    for i, (tp, tq) in enumerate(zip(prior, post)):
        for j, (p, q) in enumerate(zip(tp, tq)):
            s0 = p[1]
            s1 = q[1]
            if not (isinstance(s1, (int, float)) and math.isfinite(s1) and s1 > 0):
                cls = "C06/sigma_not_finite_positive"
                if isinstance(s1, float) and s1 != s1 and where.get("gamma") == "max":
                    # a class of its own (known finding F4 is recorded against exactly this
                    # one, per model, in known_findings.json)
                    cls += ":nan_with_gamma_1e308"
                raise Violation("C06", cls, dict(where, team=i, player=j, prior=enc(s0), post=enc(s1)))
            bound = tau_bound(s0, tau)
            if s1 > bound * (1 + TOL):
                raise Violation(
                    "C06",
                    "C06/exceeds_tau_bound:" + where.get("tau_source", "?"),
                    dict(where, team=i, player=j, prior=enc(s0), post=enc(s1), tau=enc(tau), bound=enc(bound), ratio=s1 / bound if bound else None),
                )
            if limit and s1 > s0:
                raise Violation(
                    "C06", "C06/exceeds_prior_under_limit:" + where.get("limit_source", "?"), dict(where, team=i, player=j, prior=enc(s0), post=enc(s1), tau=enc(tau))
                )


# ------------------------------------------------------------------ reachable rating objects


def reachable_ratings(obj, out=None, seen=None, depth=0):
    """Every object with mu & sigma attributes reachable from call arguments."""
    if out is None:
        out = []
        seen = set()
    if id(obj) in seen or depth > 6:
        return out
    seen.add(id(obj))
    if isinstance(obj, (list, tuple, set, frozenset)):
        for x in obj:
            reachable_ratings(x, out, seen, depth + 1)
    elif isinstance(obj, dict):
        for k, x in obj.items():
            reachable_ratings(k, out, seen, depth + 1)
            reachable_ratings(x, out, seen, depth + 1)
    elif _has(obj, "mu") and (_has(obj, "sigma") or _has(obj, "sigma_squared")):
        out.append(obj)
        t = _get(obj, "team")
        if t is not None:
            reachable_ratings(t, out, seen, depth + 1)
    return out


def _get(obj, name):
    """getattr for objects that may be hostile (an application record whose __getattr__ raises
    KeyError): the harness must never trip over the things it injects."""
    try:
        return getattr(obj, name, None)
    except Exception:
        return None


def _has(obj, name):
    try:
        return hasattr(obj, name)
    except Exception:
        return False


def rating_digest(objs):
    """Everything a rating-like object holds: the public fields and the canonical value of
    EVERY instance attribute (a private attribute whose value changes shows up too)."""
    out = []
    for o in objs:
        attrs = instance_attrs(o)
        out.append([
            type(o).__name__,
            enc(getattr(o, "mu", None)) if isinstance(getattr(o, "mu", None), (int, float, type(None))) else repr(getattr(o, "mu", None))[:60],
            enc(getattr(o, "sigma", None)) if isinstance(getattr(o, "sigma", None), (int, float, type(None))) else repr(getattr(o, "sigma", None))[:60],
            getattr(o, "id", None) if isinstance(getattr(o, "id", None), (str, int, type(None))) else repr(getattr(o, "id", None)),
            getattr(o, "name", None) if isinstance(getattr(o, "name", None), (str, type(None))) else repr(getattr(o, "name", None)),
            sorted([k, repr(_canon(v, 2, False))] for k, v in attrs.items() if k != "team"),
        ])
    return out
