#!/venv/bin/python
"""Determinism self-test: one seed is one exactly repeatable execution.

For every claimed property a block of runs is executed (a) twice in one process, (b) in fresh
interpreters under PYTHONHASHSEED 0, 1 and 4242, (c) in another order (so 'first run of the
process' vs. 'later run' is covered) and the event-log digests are diffed.  Any difference is
a harness defect and exits 2.   --short: ~20 s;   --long N: N runs per property.
"""
import hashlib
import json
import os
import subprocess
import sys

HERE = os.path.dirname(os.path.abspath(__file__))
sys.path.insert(0, HERE)
sys.dont_write_bytecode = True
PROPS = ["C06", "C13", "C14", "C15", "C20"]


def emit(prop, seed, idxs):
    import core
    import runner
    import sched

    core.load_openskill()
    sched.warm_up()
    out = {}
    for i in idxs:
        ctx, v = runner.gen_run(prop, seed, i)
        ops = hashlib.sha256(core.canon(ctx.ops_out).encode()).hexdigest()[:16]
        out[str(i)] = [ctx.digest.hex(), ctx.numdigest.hex(), ops, v.cls if v else None, ctx.evaluations]
    return out


PYC = None


def child(prop, seed, idxs, hashseed):
    env = dict(os.environ, PYTHONHASHSEED=str(hashseed), LEAGUESIM_PYC=PYC)
    env.pop("PYTHONDONTWRITEBYTECODE", None)
    for k in list(env):
        if k.startswith("COVERAGE") or k.startswith("COV_CORE"):
            del env[k]
    return subprocess.Popen([sys.executable, os.path.join(HERE, "selftest.py"), "--emit", prop, str(seed), json.dumps(idxs)], stdout=subprocess.PIPE, stderr=subprocess.PIPE, text=True, env=env)


def main(argv):
    if argv and argv[0] == "--emit":
        print(json.dumps(emit(argv[1], int(argv[2]), json.loads(argv[3]))))
        return 0
    n = 12
    if "--long" in argv:
        n = int(argv[argv.index("--long") + 1])
    seed = int(os.environ.get("VERIF_SEED", "1"))
    import shutil
    import tempfile

    global PYC
    PYC = tempfile.mkdtemp(prefix="leaguesim-pyc-")
    try:
        return compare(n, seed)
    finally:
        shutil.rmtree(PYC, ignore_errors=True)


def compare(n, seed):
    bad = 0
    total = 0
    procs = []
    for prop in PROPS:
        idxs = list(range(n))
        # chunks so that many processes run in parallel
        chunk = max(1, (n + 3) // 4)
        for c in range(0, n, chunk):
            part = idxs[c:c + chunk]
            procs.append((prop, "hs0", part, child(prop, seed, part, 0)))
            procs.append((prop, "hs0-again", part, child(prop, seed, part, 0)))
            procs.append((prop, "hs1-reversed", part, child(prop, seed, part[::-1], 1)))
            procs.append((prop, "hs4242", part, child(prop, seed, part, 4242)))
    results = {}
    for prop, tag, part, p in procs:
        o, e = p.communicate(timeout=3600)
        if p.returncode != 0:
            print("HARNESS-ERROR selftest child %s %s failed:\n%s" % (prop, tag, e[-2000:]))
            return 2
        results.setdefault(prop, {}).setdefault(tag, {}).update(json.loads(o.strip().splitlines()[-1]))
    for prop in PROPS:
        base = results[prop]["hs0"]
        for tag, r in results[prop].items():
            for i, d in base.items():
                total += 1
                if r.get(i) != d:
                    bad += 1
                    print("NONDETERMINISM %s run %s: hs0=%s %s=%s" % (prop, i, d, tag, r.get(i)))
    print("selftest: %d digest comparisons over %d runs x %d properties, %d mismatches" % (total, n, len(PROPS), bad))
    return 2 if bad else 0


if __name__ == "__main__":
    sys.exit(main(sys.argv[1:]))
