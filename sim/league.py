"""The simulated rating service (stub) around the real library, its configuration space and
its operation generator.

Real: every openskill call.  Stub: clients, match-maker, outcome generator, the store.
"""
import copy
import json
import math

from core import MODEL_NAMES, dec, enc, model_class

SQRT2 = math.sqrt(2.0)

# ------------------------------------------------------------------ gamma callbacks
# Harness-owned, pure functions of their numeric arguments, finite and >= 0.
# signature: (c, k, mu, sigma_squared, team, rank)


def _g_zero(c, k, mu, sigma_squared, team, rank):
    return 0.0


def _g_one(c, k, mu, sigma_squared, team, rank):
    return 1.0


def _g_big(c, k, mu, sigma_squared, team, rank):
    return 1.0e6


def _g_invk(c, k, mu, sigma_squared, team, rank):
    return 1.0 / k


def _g_rank(c, k, mu, sigma_squared, team, rank):
    return 1.0 / (1.0 + rank)


def _g_sqrt(c, k, mu, sigma_squared, team, rank):
    return math.sqrt(sigma_squared) / c


def _g_tiny(c, k, mu, sigma_squared, team, rank):
    return 1e-12


def _g_huge(c, k, mu, sigma_squared, team, rank):
    return 1e12


def _g_max(c, k, mu, sigma_squared, team, rank):
    return 1e308  # finite, as the domain demands, and next to the largest double


def _g_int(c, k, mu, sigma_squared, team, rank):
    return 1


def _g_teamsize(c, k, mu, sigma_squared, team, rank):
    return 1.0 / len(team)


def _g_var(c, k, mu, sigma_squared, team, rank):
    return sigma_squared / (c * c)


GAMMAS = {
    "tiny": _g_tiny,
    "huge": _g_huge,
    "int": _g_int,
    "teamsize": _g_teamsize,
    "var": _g_var,
    "zero": _g_zero,
    "one": _g_one,
    "big": _g_big,
    "invk": _g_invk,
    "rank": _g_rank,
    "sqrt": _g_sqrt,
    "max": _g_max,
}


class Reentrant:
    """A gamma callback that, before answering, has the library rate and predict an
    UNRELATED game (its own model object of the same class, its own players) - re-entrancy on
    one thread.  Its return value is that of the pure callback `base`, so a reference model
    constructed with `base` must return the same numbers."""

    _leaguesim_opaque = True

    def __init__(self, base, model_cls, kw):
        self.base = base
        self.cls = model_cls
        self.kw = kw
        self.side = None
        self.busy = False
        self.calls = 0

    def __call__(self, c, k, mu, sigma_squared, team, rank):
        if not self.busy:
            self.busy = True
            try:
                if self.side is None:
                    self.side = self.cls(**self.kw)
                m = self.side
                self.calls += 1
                t = [[m.rating(mu=self.kw.get("mu", 25.0) * 1.1)], [m.rating(), m.rating()], [m.rating()]]
                m.rate(t, ranks=[1, 1, 2] if self.calls % 2 else None)
                if self.calls % 3 == 0:
                    m.predict_draw(t)
            except Exception:
                pass
            finally:
                self.busy = False
        return self.base(c, k, mu, sigma_squared, team, rank)


class GammaCrash:
    """Wraps a gamma callback; raises `exc` at its k-th invocation (crash_callback fault)."""

    def __init__(self, inner, at, exc):
        self.inner = inner
        self.at = at
        self.exc = exc
        self.calls = 0
        self.fired = False

    def __call__(self, *a):
        self.calls += 1
        if self.calls == self.at:
            self.fired = True
            raise self.exc()
        return self.inner(*a)


# ------------------------------------------------------------------ configuration


def gen_config(rng, want=None):
    """Swarm configuration of one run (DESIGN 3.2). `want` may pin some keys."""
    want = want or {}
    name = want.get("model") or rng.choice(MODEL_NAMES)
    tm = name.startswith("Thurstone")
    r = rng.random()
    if r < 0.5:
        s = 1.0
    elif r < 0.6:
        s = rng.choice([1e-3, 1e3])
    else:
        s = 10.0 ** rng.uniform(-3, 3)
    beta = 25.0 / 6.0 * s
    r = rng.random()
    if r < 0.6:
        mu0 = 25.0 * s
    elif r < 0.75:
        mu0 = 0.0
    elif r < 0.85:
        mu0 = -10.0 * s
    else:
        mu0 = rng.uniform(-15, 15) * beta
    sigma0 = 25.0 / 3.0 * s if rng.random() < 0.7 else rng.uniform(0.5, 9.0) * beta
    r = rng.random()
    if r < 0.5:
        kappa = 1e-4
    elif r < 0.65:
        kappa = 1e-2
    elif r < 0.75:
        kappa = 1e-8
    elif r < 0.80:
        kappa = rng.choice([5e-324, 1e-321, 1e-300, 1e-200, 1e-100, 1e-30])  # still inside (0, 1e-2]
    else:
        kappa = 10.0 ** rng.uniform(-8, -2)
    if tm:
        # kappa is a dimensional draw margin for TM: t = kappa / c_iq <= kappa / (sqrt2 * beta)
        kappa = min(kappa, 1e-2 * SQRT2 * beta * 0.999)
    r = rng.random()
    if r < 0.2:
        tau = 0.0
    elif r < 0.3:
        tau = 1e-9 * s
    elif r < 0.7:
        tau = 25.0 / 300.0 * s
    elif r < 0.9:
        tau = rng.uniform(0.2, 3.0) * beta
    else:
        tau = rng.choice([1, 2]) * 1  # int-valued tau (constructor floats it)
        if s < 0.2 or s > 50:
            tau = 25.0 / 300.0 * s
    limit_sigma = rng.random() < 0.35
    r = rng.random()
    gamma = "default" if r < 0.5 else rng.choice(sorted(GAMMAS))
    if r >= 0.93:
        gamma = "re:" + rng.choice(["one", "invk", "sqrt", "rank"])
    cfg = {
        "model": name,
        "scale": enc(s),
        "kwargs": {
            "mu": enc(mu0),
            "sigma": enc(sigma0),
            "beta": enc(beta),
            "kappa": enc(kappa),
            "tau": enc(tau),
            "limit_sigma": limit_sigma,
            "gamma": gamma,
        },
    }
    for k, v in want.items():
        if k in cfg["kwargs"]:
            cfg["kwargs"][k] = v
    return cfg


def build_model(cfg, tau=None, limit_sigma=None, gamma_wrap=None, lib=None, reference=False):
    """Construct the model from its constructor kwargs; `tau`/`limit_sigma` override (encoded
    values are NOT expected here: pass decoded python values).  gamma "re:<name>" is the
    re-entrant version of the pure callback <name>; a `reference` model gets the pure one."""
    kw = {}
    reentrant = None
    for k, v in cfg["kwargs"].items():
        if k == "gamma":
            if v.startswith("re:"):
                reentrant = v[3:]
                if reference:
                    kw["gamma"] = GAMMAS[reentrant]
            elif v != "default":
                kw["gamma"] = GAMMAS[v]
        elif k == "limit_sigma":
            kw[k] = v
        else:
            kw[k] = dec(v)
    if tau is not None:
        kw["tau"] = tau
    if limit_sigma is not None:
        kw["limit_sigma"] = limit_sigma
    if reentrant and not reference:
        side_kw = {k: v for k, v in kw.items() if k != "gamma"}
        side_kw["tau"] = float(side_kw.get("tau", 0.0)) * 1.5 + 0.01 * float(side_kw.get("beta", 1.0))
        kw["gamma"] = Reentrant(GAMMAS[reentrant], model_class(cfg["model"], lib), side_kw)
    if gamma_wrap is not None:
        if "gamma" in kw:
            kw["gamma"] = gamma_wrap(kw["gamma"])
        else:
            m0 = model_class(cfg["model"], lib)(**kw)
            kw["gamma"] = gamma_wrap(m0.gamma)
    return model_class(cfg["model"], lib)(**kw)


class Domain:
    """Valid numeric domain D for rated players, relative to the model's beta."""

    def __init__(self, cfg):
        self.beta = dec(cfg["kwargs"]["beta"])
        self.mu_max = 20.0 * self.beta
        self.sig_min = 1e-4 * self.beta
        self.sig_max = 10.0 * self.beta

    def inside(self, mu, sigma, allow_zero_sigma=False):
        if not (isinstance(mu, (int, float)) and isinstance(sigma, (int, float))):
            return False
        if not (math.isfinite(mu) and math.isfinite(sigma)):
            return False
        if abs(mu) > self.mu_max:
            return False
        if sigma > self.sig_max:
            return False
        if sigma < self.sig_min:
            return allow_zero_sigma and sigma == 0
        return True

    def clamp(self, mu, sigma):
        if not (isinstance(mu, (int, float)) and math.isfinite(mu)):
            mu = 0.0
        if not (isinstance(sigma, (int, float)) and math.isfinite(sigma)):
            sigma = self.sig_max
        mu = min(max(mu, -self.mu_max), self.mu_max)
        sigma = min(max(sigma, self.sig_min), self.sig_max)
        return mu, sigma


# ------------------------------------------------------------------ the service stub


def result_values(res):
    """Numbers of a rate result, by value."""
    return [[[r.mu, r.sigma] for r in team] for team in res]


NOLABEL = object()


class League:
    """players[name] -> rating object (volatile); store[name] -> JSON '[mu, sigma]' (durable);
    one shared model (volatile, rebuilt from constructor kwargs on a full restart)."""

    def __init__(self, cfg, model=None):
        self.cfg = cfg
        self.lib = None  # the import of the library this league's process uses (None = main)
        self.model = model if model is not None else build_model(cfg)
        # the model object the SERVICE uses to build rating objects (join, re-seed, restore).
        # By default the same object; the C14/C15 driver gives the service a model object of
        # its own, so that the model under test only ever sees rate/predict calls and its
        # before/after snapshots cannot be disturbed by rating() (which may legitimately
        # keep a counter on the model)
        self.factory = self.model
        self.players = {}
        self.store = {}
        self.labels = {}  # durable: the name each player was given (the library sees this one)
        self.rosters = {}  # volatile: long-lived team LIST objects, reused whenever the same
        #                    line-up plays again (a service keeps its rosters around)
        self.reuse_rosters = True
        self.dom = Domain(cfg)
        self.reseeds = 0

    # -- store
    def save(self, name):
        p = self.players[name]
        self.store[name] = json.dumps([enc(p.mu), enc(p.sigma)])

    def stored(self, name):
        mu, sigma = json.loads(self.store[name])
        return dec(mu), dec(sigma)

    # -- ops
    def label(self, name):
        return self.labels.get(name, name)

    def join(self, name, mu=None, sigma=None, has_mu=False, has_sigma=False, label=NOLABEL, clone_of=None, positional=False):
        if label is not NOLABEL:
            self.labels[name] = label
        if clone_of is not None and clone_of in self.players:
            # a new player made from a template: copy.deepcopy keeps the template's id, so two
            # distinct rating objects with ONE id live in the league from here on
            p = copy.deepcopy(self.players[clone_of])
            self.labels[name] = self.label(clone_of)
            self.players[name] = p
            self.save(name)
            return p
        kw = {"name": self.label(name)} if self.label(name) is not None else {}
        if has_mu:
            kw["mu"] = mu
        if has_sigma:
            kw["sigma"] = sigma
        if positional and has_mu:
            # the same call written positionally: rating(mu), rating(mu, sigma), rating(mu, sigma, name)
            args = [mu] + ([sigma] if has_sigma else [])
            if has_sigma and len(name) % 3 == 0:
                # mu positional, sigma and name by keyword
                p = self.factory.rating(mu, sigma=sigma, **({"name": kw["name"]} if "name" in kw else {}))
            elif has_sigma and "name" in kw:
                args.append(kw["name"])
                p = self.factory.rating(*args)
            else:
                p = self.factory.rating(*args, **({"name": kw["name"]} if "name" in kw else {}))
        else:
            p = self.factory.rating(**kw)
        self.players[name] = p
        self.save(name)
        return p

    def ensure(self, names):
        for n in names:
            if n not in self.players:
                self.join(n)

    def teams_of(self, team_names):
        """The rating objects of a match.  The inner lists are the service's long-lived roster
        objects: the same list object is handed to the library every time the same line-up
        plays, refreshed in place with the players' current objects."""
        if not self.reuse_rosters:
            return [[self.players[n] for n in t] for t in team_names]
        out = []
        for t in team_names:
            key = tuple(t)
            lst = self.rosters.get(key)
            if lst is None:
                lst = self.rosters[key] = []
                if len(self.rosters) > 256:
                    self.rosters.pop(next(iter(self.rosters)))
            lst[:] = [self.players[n] for n in t]
            out.append(lst)
        return out

    def forget_rosters(self, names=None):
        """A restart: the roster lists die with the objects they held."""
        if names is None:
            self.rosters.clear()
        else:
            ns = set(names)
            for key in [k for k in self.rosters if ns & set(k)]:
                del self.rosters[key]

    def reseed_out_of_domain(self, team_names, tau_zero, limit=False):
        """Executor-side, deterministic: a player that left D is clamped back before use.
        sigma == 0 is inside D only for a rate call with tau > 0 and limit_sigma not in force
        (with the limit on, 'strictly positive' and '<= prior' cannot both hold for a prior
        of 0: such a game is outside what C06 can state anything about)."""
        tau_zero = tau_zero or limit
        out = []
        for t in team_names:
            for n in t:
                p = self.players[n]
                if not self.dom.inside(p.mu, p.sigma, allow_zero_sigma=not tau_zero):
                    mu, sigma = self.dom.clamp(p.mu, p.sigma)
                    p2 = self.factory.rating(mu=mu, sigma=sigma, name=self.label(n))
                    self.players[n] = p2
                    self.save(n)
                    self.reseeds += 1
                    out.append(n)
        return out

    def commit(self, team_names, res):
        for t, rt in zip(team_names, res):
            for n, r in zip(t, rt):
                self.players[n] = r
                self.save(n)


def rate_kwargs(op, distinct=False):
    """The keyword arguments of a rate call, decoded.  Numbers that compare equal are the SAME
    object in the call under test and DISTINCT objects in a reference execution (`distinct`):
    results must not depend on the identity of the numbers passed, and both patterns are a
    pure function of the op, so a run and its replay from JSON agree."""
    kw = {}
    if "ranks" in op:
        kw["ranks"] = dec_outcome(op["ranks"], distinct)
    if "scores" in op:
        kw["scores"] = dec_outcome(op["scores"], distinct)
    if "tau" in op:
        kw["tau"] = dec(op["tau"])
    if "limit_sigma" in op:
        kw["limit_sigma"] = op["limit_sigma"]
    return kw


def dec_outcome(v, distinct=False):
    out = []
    shared = {}
    for x in v:
        y = dec(x)
        if isinstance(y, bool):
            out.append(y)
        elif distinct:
            # a fresh object per element (CPython only shares the small ints -5..256)
            out.append(int(str(y)) if isinstance(y, int) else float.fromhex(y.hex()) if y == y else y)
        else:
            key = (type(y).__name__, y if y == y else "nan", str(y))
            out.append(shared.setdefault(key, y))
    return out


def do_predict(model, kind, teams):
    """A match-making query as the application makes it.  The application OWNS what it gets
    back: like any caller it sorts, pops or extends the returned list in place for display -
    here, after the numbers have been copied out, the returned list is reversed and grown (a
    library that hands out a list it keeps for itself will meet it again)."""
    res = _do_predict(model, kind, teams)
    out = [list(x) for x in res] if kind == "rank" else (list(res) if isinstance(res, list) else res)
    if isinstance(res, list):
        try:
            res.reverse()
            res.append(res[0] if res else 0.0)
        except Exception:
            pass
    return out


def _do_predict(model, kind, teams):
    if isinstance(teams, list) and len(teams) % 2 == 1:
        # every other query names its argument (the spelling of the repository's own tests)
        if kind == "win":
            return model.predict_win(teams=teams)
        if kind == "draw":
            return model.predict_draw(teams=teams)
        if kind == "rank":
            return model.predict_rank(teams=teams)
    if kind == "win":
        return model.predict_win(teams)
    if kind == "draw":
        return model.predict_draw(teams)
    if kind == "rank":
        return model.predict_rank(teams)
    raise ValueError(kind)


# ------------------------------------------------------------------ workload generation


def weak_order(rng, n, rule, strengths=None):
    """A weak order of n teams as a list of place indices 0..(ties share a place)."""
    if rule == "skill" and strengths is not None:
        order = sorted(range(n), key=lambda i: -(strengths[i] + rng.gauss(0, 1)))
    elif rule == "upset" and strengths is not None:
        order = sorted(range(n), key=lambda i: strengths[i])
    else:
        order = list(range(n))
        rng.shuffle(order)
    place = [0] * n
    p = 0
    tie_p = {"tie": 0.6}.get(rule, 0.15)
    for k, i in enumerate(order):
        if k > 0 and rng.random() >= tie_p:
            p += 1
        place[i] = p
    return place


def encode_outcome(rng, place):
    """Encode a weak order as ranks or scores with ints, floats, bools, negatives, repeats."""
    n = len(place)
    r = rng.random()
    if r < 0.12 and place == sorted(place) and len(set(place)) == n:
        return {}  # omitted: input order is the outcome
    mode = rng.choice(["int", "int", "float", "floatint", "mixed", "neg", "big", "bool", "signedzero"])
    if mode == "signedzero" and len(set(place)) > 2:
        mode = "floatint"
    if mode == "bool" and max(place) > 1:
        mode = "int"
    vals = sorted(set(place))
    if mode == "int":
        step = rng.choice([1, 1, 2, 7])
        base = rng.choice([0, 0, 1, -3])
        m = {v: base + step * i for i, v in enumerate(vals)}
    elif mode == "signedzero":
        # -0.0 == 0.0 == 0: the best place is a (signed) zero
        m = {v: [rng.choice([-0.0, 0.0, 0]), 1.5][i] for i, v in enumerate(vals)}
    elif mode == "floatint":
        # the same values an "int" encoding would use, as floats: (1, 1, 2) == (1.0, 1.0, 2.0)
        step = rng.choice([1, 1, 2, 7])
        base = rng.choice([0, 0, 1, -3])
        m = {v: float(base + step * i) for i, v in enumerate(vals)}
    elif mode == "float":
        base = rng.choice([0.0, 0.5, -2.25])
        m = {v: base + 1.5 * i for i, v in enumerate(vals)}
    elif mode == "mixed":
        m = {v: (i if i % 2 == 0 else i + 0.0) for i, v in enumerate(vals)}
        m = {v: (x * 2 if isinstance(x, int) else x * 2.0) for v, x in m.items()}
    elif mode == "neg":
        m = {v: -10 * (len(vals) - i) for i, v in enumerate(vals)}
    elif mode == "big":
        m = {v: 10 ** 9 + i for i, v in enumerate(vals)}
    else:
        m = {v: bool(i) for i, v in enumerate(vals)}
    ranks = [m[p] for p in place]
    if rng.random() < 0.4:
        # scores: higher is better -> negate (bools: invert)
        if mode == "bool":
            sc = [not x for x in ranks]
        else:
            sc = [-x for x in ranks]
        return {"scores": enc(sc)}
    return {"ranks": enc(ranks)}


ODD_NAMES = [
    "Zoe\u0308", "A\u030angstro\u0308m", "\u212b", "\u1100\u1161\u11a8", "\ufb01nal", "  padded  ", "O'Brien; DROP TABLE", "x" * 300,
    "\u00e9clair", "\U0001f3b2 dice", "tab\tname", "0", "None", "\u0130stanbul", "stra\u00dfe", "\u01c4",
    "lone\ud800surrogate", "nul\x00byte", "\u200bzero width", "\u202eright-to-left", "   ", "\n", "",
    "{GM}Ace", "{}", "{0}", "struct{int x;}", "100% legit", "%s of %d", "%(name)s", "$HOME ${x}", "{", "}}", "\\N{DASH}", "a\\b",
]


def gen_population(rng, cfg, n, style):
    """Initial players: list of NEW ops."""
    d = Domain(cfg)
    mu0 = dec(cfg["kwargs"]["mu"])
    ops = []
    for i in range(n):
        name = "p%d" % i
        op = {"op": "NEW", "name": name}
        r0 = rng.random()
        if r0 < 0.25:
            # the name the library gets: not every player is called p<i>
            op["label"] = rng.choice(ODD_NAMES) + (" #%d" % i if rng.random() < 0.5 else "")
        elif r0 < 0.35:
            op["label"] = None  # a player without a name
        if rng.random() < 0.3:
            op["positional"] = True
        r = rng.random()
        if style == "default" or (style == "mixed" and r < 0.4):
            pass
        elif style == "smurf" and i % 4 == 0:
            far = rng.uniform(5.0, 8.5) * math.sqrt(2 * d.beta ** 2 + 2 * (0.5 * d.beta) ** 2)
            op["mu"] = enc(max(-d.mu_max, min(d.mu_max, mu0 + rng.choice([-1, 1]) * far)))
            op["sigma"] = enc(rng.uniform(0.05, 0.6) * d.beta)
        elif style == "smurf":
            op["mu"] = enc(mu0 + rng.uniform(-0.5, 0.5) * d.beta)
            op["sigma"] = enc(rng.uniform(0.05, 0.6) * d.beta)
        else:
            r2 = rng.random()
            if r2 < 0.1:
                op["mu"] = 0
            elif r2 < 0.2:
                op["mu"] = enc(0.0)
            elif r2 < 0.3:
                op["mu"] = int(max(-d.mu_max, min(d.mu_max, rng.randint(-30, 60)))) if d.beta > 2 else enc(-d.beta)
            else:
                op["mu"] = enc(rng.uniform(-d.mu_max, d.mu_max) * rng.random())
            r3 = rng.random()
            if r3 < 0.04:
                op["sigma"] = rng.choice([0, enc(0.0)])
            elif r3 < 0.1:
                op["sigma"] = enc(d.sig_min)
            elif r3 < 0.2:
                op["sigma"] = enc(d.sig_max)
            elif r3 < 0.3 and d.beta > 0.5 and d.sig_max >= 3:
                op["sigma"] = int(min(d.sig_max, max(1, round(2 * d.beta))))
            else:
                op["sigma"] = enc(10.0 ** rng.uniform(math.log10(d.sig_min), math.log10(d.sig_max)))
        ops.append(op)
    if rng.random() < 0.25:
        # some players are clones of a template player (same id, values diverge as they play)
        for i in range(1, n):
            if rng.random() < 0.35:
                ops[i] = {"op": "NEW", "name": "p%d" % i, "clone_of": "p%d" % rng.randrange(0, i)}
    return ops


def gen_match(rng, names, league, shape_max=(4, 3), maker="random", avoid=None):
    """Pick disjoint teams from `names`. Returns list of lists of names (>= 2 teams).
    shape_max = (most teams, most players per team[, fewest teams])."""
    pool = [n for n in names if not avoid or n not in avoid]
    k_max = min(shape_max[0], len(pool))
    if k_max < 2:
        return None
    k = 2 if rng.random() < 0.45 else rng.randint(2, k_max)
    if len(shape_max) > 2:
        k = max(k, min(shape_max[2], k_max))
    m_max = max(1, min(shape_max[1], len(pool) // k))
    sizes = [1 if rng.random() < 0.4 else rng.randint(1, m_max) for _ in range(k)]
    if rng.random() < 0.5:
        sizes = [sizes[0]] * k
    need = sum(sizes)
    if need > len(pool):
        sizes = [1] * k
        need = k
    if maker == "random" or league is None:
        chosen = rng.sample(pool, need)
    else:
        ordered = sorted(pool, key=lambda n: (float(league.players[n].mu) if n in league.players else 0.0, n))
        if maker == "closest":
            s = rng.randrange(0, len(ordered) - need + 1)
            chosen = ordered[s:s + need]
            rng.shuffle(chosen)
        else:  # farthest: half from the bottom, half from the top
            lo = ordered[: (need + 1) // 2]
            hi = ordered[len(ordered) - need // 2:] if need // 2 else []
            chosen = []
            sizes = sorted(sizes)
            # alternate teams between the extremes
            srcs = [lo, hi]
            for ti, sz in enumerate(sizes):
                src = srcs[ti % 2] if len(srcs[ti % 2]) >= sz else srcs[(ti + 1) % 2]
                if len(src) < sz:
                    src = lo + hi
                for _ in range(sz):
                    chosen.append(src.pop(rng.randrange(len(src))))
            if len(chosen) != need:
                chosen = rng.sample(pool, need)
    teams = []
    i = 0
    for sz in sizes:
        teams.append(chosen[i:i + sz])
        i += sz
    return teams


def gen_options(rng, cfg, rate=0.3, grid=False):
    """Per-call tau / limit_sigma."""
    out = {}
    s = dec(cfg["scale"])
    beta = dec(cfg["kwargs"]["beta"])
    mt = dec(cfg["kwargs"]["tau"])
    if rng.random() < rate:
        r = rng.random()
        if r < 0.25:
            out["tau"] = rng.choice([0, enc(0.0), enc(0.0), enc(-0.0)])
        elif r < 0.33:
            out["tau"] = enc(1e-12 * s)
        elif r < 0.43:
            out["tau"] = enc(25.0 / 300.0 * s)
        elif r < 0.53:
            # exactly the model's own tau, or a neighbour of it
            out["tau"] = enc(float(mt) * rng.choice([1.0, 1.0, 1.0 + 1e-10, 1.0 - 1e-10, 1.0 + 2.0 ** -52]))
        elif r < 0.80:
            out["tau"] = enc(rng.uniform(0.3, 4.0) * beta)
        elif r < 0.84:
            out["tau"] = enc(rng.choice([10.0, 50.0, 300.0]) * beta)
        elif r < 0.87:
            out["tau"] = enc(rng.choice([1e-30 * s, 1e-170, 5e-324, 1e-160 * beta]))  # tau*tau underflows
        else:
            out["tau"] = rng.choice([1, 2, 3, True]) if 0.2 <= s <= 50 else enc(beta)  # True == 1: a bool is an int
    if rng.random() < rate:
        out["limit_sigma"] = rng.random() < 0.5
    return out
