"""Per-property simulation drivers.  A driver pulls ops from ctx (generated against the
current league state, or taken from a replay file), executes them against the real library
inside the simulated service, and evaluates the armed property's oracle as it goes.
"""
import copy
import json
import math

import faults
import sched as S
from core import Digest, HarnessError, Violation, canon, dec, enc, h64
from league import (
    Domain,
    League,
    build_model,
    do_predict,
    encode_outcome,
    gen_match,
    gen_options,
    gen_population,
    rate_kwargs,
    result_values,
    weak_order,
)
from oracles import (
    check_sigma,
    tau_bound,
    id_mode,
    diff_state,
    mk_rating,
    model_state,
    module_state,
    rating_digest,
    reachable_ratings,
    ref_predict,
    ref_rate,
    snap_teams,
)


class NumDigest(Digest):
    """Digest of returned numbers that also remembers which op each entry came from."""

    def __init__(self, ctx):
        Digest.__init__(self)
        self._ctx = ctx

    def add(self, obj):
        Digest.add(self, obj)
        self._ctx.numlog.append([self._ctx.i, h64(obj)])


class Ctx:
    def __init__(self, prop, cfg, params, streams=None, ops_in=None):
        self.prop = prop
        self.cfg = cfg
        self.params = params
        self.streams = streams
        self.ops_in = list(ops_in) if ops_in is not None else None
        self.replay = ops_in is not None
        self.ops_out = []
        self.stats = {}
        self.faults = {}
        self.probes = {}
        self.digest = Digest()
        self.numdigest = NumDigest(self)  # numbers only (hash-seed comparison)
        self.numlog = []  # (op index, hash of the numbers) per judged call
        self.random_seed = 20240101
        self.nontrivial = set()
        self.evaluations = 0
        self.sigs = set()
        self.switch_sites = set()
        self.lines_seen = set()
        self.instr_sites = set()
        self.instr_seen = set()
        self.steps = 0
        self.uncaught = {}
        self.i = -1

    def rng(self, name):
        return self.streams.get(name)

    def next_op(self, gen):
        """Next op: from the replay list, or generated now against current state."""
        self.i += 1
        if self.replay:
            if self.i >= len(self.ops_in):
                return None
            op = self.ops_in[self.i]
        else:
            op = gen()
            if op is None:
                return None
        self.ops_out.append(op)
        return op

    def count(self, k, n=1):
        self.stats[k] = self.stats.get(k, 0) + n

    def fault(self, k, n=1):
        self.faults[k] = self.faults.get(k, 0) + n

    def probe(self, k, n=1):
        self.probes[k] = self.probes.get(k, 0) + n

    def log(self, *ev):
        self.digest.add(ev)

    def violation(self, cls, detail=None):
        raise Violation(self.prop, cls, detail, self.i)


def flat(names):
    return [n for t in names for n in t]


def tau_kind(t):
    if isinstance(t, bool):
        return "bool"
    if t == 0:
        return "zero_int" if isinstance(t, int) else "zero_float"
    if isinstance(t, int):
        return "int"
    return "tiny" if t < 1e-6 else "float"


# ====================================================================== shared op execution


def created_so_far(ids_seen):
    return ids_seen if ids_seen is not None else ()


def restore_player(ctx, league, name, path, ids_seen=None, check=False):
    """Rebuild one player from the durable store through `path`. Returns the new object."""
    old = league.players.get(name)
    if path == "none" and old is not None:
        # the application caught the exception and simply carries on with the objects as the
        # interrupted call left them (rate() is not atomic: they hold a torn but well-formed
        # mixture of old and new values, which is what the next call is given - and what the
        # store now holds)
        if all(isinstance(getattr(old, f, None), (int, float)) and math.isfinite(getattr(old, f)) for f in ("mu", "sigma")):
            league.save(name)
            ctx.fault("restore:none_torn_values_kept")
            return old
        path = "rating"
    if path == "inplace" and old is not None:
        # the application caught an exception and puts the stored values back onto the SAME
        # object (same identity, same id, whatever else the library parked on it)
        mu, sigma = league.stored(name)
        try:
            old.mu = mu
            old.sigma = sigma
            ctx.fault("restore:inplace")
            return old
        except AttributeError:
            path = "rating"
    if path == "deepcopy" and old is not None:
        new = copy.deepcopy(old) if len(name) % 2 else copy.deepcopy(old, {})  # with / without an explicit memo
        if check:
            if new is old:
                ctx.violation("C20/deepcopy:identity", {"name": name})
            for f in ("mu", "sigma", "name", "id"):
                b, a = getattr(new, f, "<missing>"), getattr(old, f, None)
                if not same_value(a, b):
                    ctx.violation("C20/deepcopy:%s" % f, {"name": name, "orig": repr(a), "copy": repr(b)})
    else:
        mu, sigma = league.stored(name)
        if ctx.prop == "C20" and check and (len(created_so_far(ids_seen)) + len(name)) % 4 == 0 and not name.startswith("b"):
            # the store held nothing but (mu, sigma): the player comes back without a name
            league.labels[name] = None
            ctx.fault("restore_without_name")
        label = league.label(name)
        try:
            if path == "create_rating":
                # half of the time through the service's one reusable two-element list (the
                # library must not keep a reference to it)
                pair = [mu, sigma]
                if len(name) % 2 == 0:
                    pair = league.__dict__.setdefault("_pair_buffer", [None, None])
                    pair[:] = [mu, sigma]
                new = type(league.factory).create_rating(pair, label) if label is not None or len(name) % 2 else type(league.factory).create_rating(pair)
            else:
                path = "rating"
                new = league.factory.rating(mu, sigma, label) if label is not None or len(name) % 2 else league.factory.rating(mu, sigma)
        except Exception as e:
            if ctx.prop == "C20" and check:
                # finite stored values (zero and negatives included) must be accepted
                ctx.violation("C20/restore_value:%s:raised_%s" % (path, type(e).__name__), {"mu": enc(mu), "sigma": enc(sigma), "name": repr(label), "message": str(e)[:200]})
            raise
        if check:
            check_built(ctx, new, mu, sigma, label, path, ids_seen)
    league.players[name] = new
    league.forget_rosters([name])
    ctx.fault("restore:" + path)
    return new


def same_value(a, b):
    """'Holding exactly the given value': the same double where a float is given and a float is
    held (sign of zero included); numerically equal where an int meets a float (an int 25 and a
    float 25.0 are the same value - a constructor may coerce); anything else must be equal
    and of the same type."""
    num = (int, float)
    if isinstance(a, float) and isinstance(b, float):
        return a.hex() == b.hex()  # the same double: -0.0 given is -0.0 held
    if isinstance(a, num) and isinstance(b, num) and not isinstance(a, bool) and not isinstance(b, bool):
        return a == b
    return type(a) is type(b) and a == b


def out_same(a, b):
    """Two call outcomes are the same: same status and - number by number - bit-identical
    floats, or numerically equal values where an int meets a float (a sigma clamped back to an
    int prior is the int; the twin restored through a coercing constructor holds the float)."""
    if a[0] != b[0]:
        return False
    if a[0] != "ok":
        return a[1] == b[1]

    def walk(x, y):
        if isinstance(x, list) and isinstance(y, list):
            return len(x) == len(y) and all(walk(p, q) for p, q in zip(x, y))
        if isinstance(x, list) or isinstance(y, list):
            return False
        u, v = dec(x), dec(y)
        if isinstance(u, float) and isinstance(v, float):
            return enc(u) == enc(v)
        return same_value(u, v)

    return walk(a[1], b[1])


def snap_same(a, b):
    """Two argument snapshots hold the same VALUES (an int 25 in one twin and a float 25.0 in
    the other is the same value: a construction path may coerce)."""
    fa = [x for t in a for p in t for x in p]
    fb = [x for t in b for p in t for x in p]
    return len(fa) == len(fb) and all(same_value(dec(x), dec(y)) for x, y in zip(fa, fb))


def check_built(ctx, r, mu, sigma, name, path, created):
    """Construction invariants of a rating built through rating()/create_rating().  The id is
    deliberately NOT read here: an implementation may create it lazily, and reading it now
    would hide a copy taken before the first read.  Built objects are remembered in `created`
    and their ids are verified by check_ids() later (after copies were taken)."""
    for f, want in (("mu", mu), ("sigma", sigma)):
        got = getattr(r, f, "<missing>")
        if not same_value(got, want):
            ctx.violation("C20/restore_value:%s:%s" % (path, f), {"given": enc(want), "held": enc(got) if isinstance(got, (int, float)) else repr(got)})
    if name and getattr(r, "name", None) != name:
        ctx.violation("C20/restore_value:%s:name" % path, {"given": name, "held": repr(getattr(r, "name", None))})
    if name is None and getattr(r, "name", None) is not None:
        ctx.violation("C20/restore_value:%s:name" % path, {"given": None, "held": repr(getattr(r, "name", None))})
    if created is not None:
        if len(created) % 2 == 1:
            # remembered by its id string only: the object itself may be garbage collected, so
            # that an implementation that RECYCLES the ids of dead ratings is seen handing out
            # an id that is not fresh
            created.append((IdOnly(getattr(r, "id", None)), path))
        else:
            created.append((r, path))


class IdOnly:
    def __init__(self, rid):
        self.id = rid


def check_ids(ctx, created):
    """Every rating built through rating()/create_rating() carries a non-empty string id that
    differs from the id of every other built rating of the run."""
    seen = {}
    for k, (r, path) in enumerate(created):
        rid = getattr(r, "id", None)
        if not isinstance(rid, str) or not rid:
            ctx.violation("C20/id_not_fresh:%s" % path, {"id": repr(rid)})
        j = seen.get(rid)
        if j is not None and created[j][0] is not r:
            ctx.violation("C20/id_not_fresh:%s" % path, {"id": "repeated", "first_built_through": created[j][1]})
        seen[rid] = k


def exec_new(ctx, league, op):
    kw = {}
    if "label" in op:
        kw["label"] = op["label"]
    if "clone_of" in op:
        kw["clone_of"] = op["clone_of"]
    if op.get("positional"):
        kw["positional"] = True
    if "mu" in op:
        kw.update(mu=dec(op["mu"]), has_mu=True)
    if "sigma" in op:
        kw.update(sigma=dec(op["sigma"]), has_sigma=True)
    return league.join(op["name"], **kw)


def malformed_call(ctx, league, o, tracer=None):
    """Execute a MALFORMED op on the league's model.  Returns (status, value, verdict); the
    verdict is O_reject's (C13 only): None, or (violation class, detail) - it is RETURNED,
    not raised, because the caller may be a worker thread."""
    teams = league.teams_of(o["teams"])
    call, args, kw = faults.build_call(o["fault"], league.cfg["model"], teams)
    c13 = ctx.prop == "C13"
    if c13:
        objs = reachable_ratings([args, kw, teams])
        pre_r = rating_digest(objs)
    fn = lambda: faults.invoke(league.model, call, args, kw)
    st, val = tracer(fn) if tracer is not None else call_outcome(fn)
    verdict = None
    if c13 and st != "crash":
        post_r = rating_digest(objs)
        label = faults.fault_label(o["fault"])
        det = {"fault": o["fault"], "teams": o["teams"], "snap": snap_teams(league.teams_of(o["teams"]))}
        if st == "ok":
            verdict = ("C13/accepted:%s" % label, det)
        elif not isinstance(val, (TypeError, ValueError)):
            verdict = ("C13/wrong_exception:%s:%s" % (label, type(val).__name__), dict(det, message=str(val)[:200]))
        elif pre_r != post_r:
            changed = [i for i, (a, b) in enumerate(zip(pre_r, post_r)) if a != b]
            verdict = ("C13/side_effect:%s:rating" % label, dict(det, exception=type(val).__name__, changed=len(changed), before=pre_r[changed[0]], after=post_r[changed[0]]))
        if len(objs) > 0:
            ctx.nontrivial.add(h64([league.cfg["model"], label, o["fault"].get("pos"), o["fault"].get("len"), det["snap"], "service"]))
    return st, val, verdict


def call_outcome(fn):
    try:
        return ("ok", fn())
    except Exception as e:
        return ("exc", e)


def prepare_call(ctx, league, op):
    """What the service does before it calls the library: make sure the players exist and
    clamp anybody who left the valid domain D back into it (deterministic, logged)."""
    names = op["teams"]
    league.ensure(flat(names))
    if op["op"] == "RATE":
        tau_eff = dec(op["tau"]) if "tau" in op else dec(league.cfg["kwargs"]["tau"])
        lim_eff = op["limit_sigma"] if "limit_sigma" in op else bool(league.cfg["kwargs"]["limit_sigma"])
        rs = league.reseed_out_of_domain(names, tau_zero=(tau_eff * tau_eff == 0), limit=bool(lim_eff))
    else:
        rs = league.reseed_out_of_domain(names, tau_zero=True)
    if rs:
        ctx.fault("domain_reseed", len(rs))
        ctx.log("reseed", rs)
    return rs


def exec_call(ctx, league, op, tracer=None):
    """Execute a RATE or PREDICT op on the league. Returns a record dict; commits results."""
    names = op["teams"]
    rs = prepare_call(ctx, league, op)
    teams = league.teams_of(names)
    if op["op"] == "PREDICT" and op.get("alias"):
        # the SAME team list object at several positions of one query ([team] * k): the
        # reference rebuilds every position as a distinct, equal-valued list
        teams = [teams[i % len(teams)] for i in op["alias"]]
    rec = {"op": op, "snap": snap_teams(teams), "reseeded": rs, "cfg": league.cfg}
    if op["op"] == "RATE":
        kw = rate_kwargs(op)
        if ctx.params.get("house_outcomes"):
            # standing result tables: an outcome that was used before is passed as the very
            # same list object again (the reference always builds its own from the op)
            pool = league.__dict__.setdefault("outcome_pool", {})
            for sel in ("ranks", "scores"):
                if sel in kw:
                    kw[sel] = pool.setdefault((sel, json.dumps(op[sel])), kw[sel])
                    ctx.count("standing_outcome_list_passed")
        rec["kw"] = kw
        if (len(teams) + len(kw)) % 3 == 0:
            # one call in three names its first argument, as the repository's own tests do
            # (references always pass it positionally and the outcome by keyword)
            fn = lambda: league.model.rate(teams=teams, **kw)
        elif (len(teams) + len(kw)) % 3 == 1 and ("ranks" in kw or "scores" in kw):
            # one in three passes the outcome positionally, in the documented order
            kw2 = dict(kw)
            pos = (kw2.pop("ranks", None),) + ((kw2.pop("scores"),) if "scores" in kw2 else ())
            fn = lambda: league.model.rate(teams, *pos, **kw2)
        else:
            fn = lambda: league.model.rate(teams, **kw)
    else:
        fn = lambda: do_predict(league.model, op["kind"], teams)
    if tracer is not None:
        st, val = tracer(fn)
    else:
        st, val = call_outcome(fn)
    if st == "ok":
        if op["op"] == "RATE":
            rec["out"] = ("ok", enc(result_values(val)))
            if (len(val) != len(names)) or any(len(a) != len(b) for a, b in zip(val, names)):
                rec["shape_bad"] = True
            else:
                league.commit(names, val)
        else:
            rec["out"] = ("ok", enc(val))
    elif st == "exc":
        rec["out"] = ("exc", type(val).__name__)
        k = "%s:%s" % (op["op"], type(val).__name__)
        ctx.uncaught[k] = ctx.uncaught.get(k, 0) + 1
    else:
        rec["out"] = ("crash", None)
    return rec


# ====================================================================== generators (shared)


def pick_rosters(rng, rosters, names, k_max=4):
    """A match between some of the fixed line-ups (whose members are all present)."""
    ok = [r for r in rosters if all(n in names for n in r)]
    if len(ok) < 2:
        return None
    k = 2 if rng.random() < 0.45 else rng.randint(2, min(k_max, len(ok)))
    return [list(r) for r in rng.sample(ok, k)]


def make_rosters(rng, names):
    """Partition the players into fixed line-ups of 1-3."""
    pool = list(names)
    rng.shuffle(pool)
    out = []
    while pool:
        sz = min(len(pool), rng.choice([1, 1, 2, 2, 3]))
        out.append(pool[:sz])
        pool = pool[sz:]
    return out


def gen_rate_op(rng, ctx, league, names, opt_rate=0.3, shape=(4, 3), maker="random", rule="uniform", rosters=None):
    teams = None
    if rosters and rng.random() < 0.7:
        teams = pick_rosters(rng, rosters, set(names), k_max=shape[0])
    if teams is None:
        teams = gen_match(rng, names, league, shape_max=shape, maker=maker)
    if teams is None:
        return None
    strengths = None
    if rule in ("skill", "upset"):
        b = league.dom.beta
        strengths = [sum(float(league.players[n].mu) for n in t) / b if all(n in league.players for n in t) else 0.0 for t in teams]
    place = weak_order(rng, len(teams), rule, strengths)
    op = {"op": "RATE", "teams": teams}
    outcome = encode_outcome(rng, place)
    if ctx.params.get("house_outcomes"):
        # a service with a handful of standing result tables ("PODIUM = [3, 1, 2]"): the same
        # outcome recurs, and exec_call hands the library the same list OBJECT each time
        seen = ctx.__dict__.setdefault("house", {}).setdefault(len(teams), [])
        if seen and rng.random() < 0.6:
            outcome = dict(rng.choice(seen))
        elif outcome:
            seen.append(outcome)
    op.update(outcome)
    op.update(gen_options(rng, ctx.cfg, rate=opt_rate))
    return op


def gen_predict_op(rng, names, league, shape=(4, 3), rosters=None):
    teams = None
    if rosters and rng.random() < 0.8:
        teams = pick_rosters(rng, rosters, set(names), k_max=shape[0])
    if teams is None:
        teams = gen_match(rng, names, league, shape_max=shape)
    if teams is None:
        return None
    op = {"op": "PREDICT", "kind": rng.choice(["win", "draw", "rank"]), "teams": teams}
    if rng.random() < 0.08:
        k = len(teams)
        op["alias"] = rng.choice([[0] * 3, [0, 1, 0], list(range(k)) + [0], [0, 0] + list(range(1, k)), [k - 1] * 4])
    return op


def gen_malformed_op(rng, ctx, names, league, calls=faults.CALLS):
    teams = gen_match(rng, names, league, shape_max=(3, 2))
    if teams is None:
        return None
    g = faults.grammar([len(t) for t in teams], ctx.cfg["model"], calls=calls)
    if ctx.params.get("p_thread_malformed") and rng.random() < 0.5:
        # service flavour of C13: half of the malformed requests have a bad SELECTOR (length,
        # element, container) - what a concurrent call with another team count could mask
        g = [f for f in g if f.get("arg") in ("ranks", "scores", "both")] or g
    return {"op": "MALFORMED", "teams": teams, "fault": rng.choice(g)}


# ====================================================================== C14 / C15 driver


def calls_params(rng, prop):
    p = _calls_params(rng, prop)
    big = rng.random()
    wide = rng.random() < 0.5
    if p["length"] >= 2000:
        # a very long life of one model (thousands of calls): mostly plain sequential calls,
        # every reference in a pristine import (a call counter hidden anywhere flips both the
        # call and an in-process reference alike); half of these lives consist of 12-team
        # free-for-alls (hundreds of thousands of distinct pairings on one model object)
        p.update(pristine_refs=True, threaded=False, p_fault=0.0, p_other_model=0.0, shape=[12, 1, 12] if wide else [3, 2])
        if wide:
            p.update(players=40)
    elif big < 0.05:
        # a battle-royale service: lobbies of up to 100 teams (the sizes come and go, so a big
        # lobby is followed by smaller big lobbies), ties are common
        p.update(players=110, shape=[100, 1] if wide else [48, 2], length=rng.choice([12, 20, 40]), threaded=False, rule="tie" if wide else p["rule"], p_extreme=0.0, fixed_rosters=False)
    return p


def _calls_params(rng, prop):
    return {
        "length": 2000 if rng.random() < 0.004 else rng.choice([4, 8, 12, 20, 32, 32, 300] if rng.random() < 0.15 else [4, 8, 12, 20, 32]),
        "players": rng.choice([6, 8, 12, 16, 40]),
        "population": rng.choice(["default", "mixed", "spread"]),
        "opt_rate": rng.choice([0.15, 0.35, 0.6]) if prop == "C14" else rng.choice([0.5, 0.8]),
        "threaded": rng.random() < (0.45 if prop == "C14" else 0.3),
        "p_fault": rng.choice([0.0, 0.1, 0.25]),
        "faults_on": sorted(rng.sample(["malformed", "crash", "restart"], rng.randint(0, 3))),
        "maker": rng.choice(["random", "closest", "farthest"]),
        "rule": rng.choice(["uniform", "skill", "upset", "tie"]),
        "pristine_refs": rng.random() < 0.35,
        "fixed_rosters": rng.random() < 0.4,
        "shape": rng.choice([[4, 3], [4, 3], [4, 3], [6, 4], [8, 8], [12, 2]]),
        "p_extreme": rng.choice([0.0, 0.03, 0.1]),
        "p_other_model": rng.choice([0.0, 0.05, 0.15]),
        "house_outcomes": rng.random() < 0.3,
    }


def deep_probe(model):
    """Cheap digest of what callers share besides the model instance: the globals of the
    model's own module and of the shared helper modules, and the dictionaries of the model
    class and its rating classes.  Identity of every value (C speed) plus the sizes of the
    containers found there; a rebound global, a new class attribute or a growing cache all
    change it."""
    import sys as _sys

    cls = type(model)
    names = {cls.__module__, "openskill.models.weng_lin.common", "openskill.models.common"}
    dicts = [vars(_sys.modules[n]) for n in sorted(names) if n in _sys.modules]
    own = vars(_sys.modules[cls.__module__])
    for v in list(own.values()):
        if isinstance(v, type) and getattr(v, "__module__", None) == cls.__module__:
            dicts.append(vars(v))
    md = getattr(model, "__dict__", {})
    cont = (dict, list, set)
    prim = (int, float, bool, str, type(None))
    # objects of library-defined classes kept in module globals (a holder with __slots__, a
    # registry instance): their attribute VALUES are shared state too
    from oracles import instance_attrs

    holders = []
    for d in dicts:
        for v in list(d.values()):
            tm = getattr(type(v), "__module__", "") or ""
            if tm.startswith("openskill") and not isinstance(v, type) and not callable(v):
                holders.append(v)

    # state that functions carry with them: closure cells ("nonlocal" counters, arenas, memo
    # slots of a factory-made helper) and mutable default arguments
    import types as _types

    cells, defaults = [], []
    for d in dicts:
        for v in list(d.values()):
            f = getattr(v, "__func__", v)
            f = getattr(f, "__wrapped__", f)
            if isinstance(f, _types.FunctionType):
                cells.extend(f.__closure__ or ())
                for dv in tuple(f.__defaults__ or ()) + tuple((f.__kwdefaults__ or {}).values()):
                    if type(dv) in cont:
                        defaults.append(dv)

    def cell_value(c):
        try:
            v = c.cell_contents
        except ValueError:  # empty cell
            return None
        if type(v) in prim:
            return v
        if type(v) is list and len(v) <= 1024:
            return tuple(map(id, v))
        if type(v) in cont:
            return (id(v), len(v))
        return id(v)

    def probe():
        out = [tuple(map(id, md.values()))]
        for d in dicts:
            vals = tuple(d.values())
            out.append(tuple(map(id, vals)))
            out.append(sum(len(v) for v in vals if type(v) in cont))
        for h in holders:
            out.append(tuple(v if type(v) in prim else id(v) for v in instance_attrs(h).values()))
        if cells:
            out.append(tuple(map(cell_value, cells)))
        if defaults:
            out.append(tuple(map(len, defaults)))
        return out

    return probe


class CallsDriver:
    """Sequential histories and threaded phases on ONE long-lived shared model (C14, C15)."""

    def __init__(self, ctx):
        self.ctx = ctx
        self.league = League(ctx.cfg)
        self.league.factory = build_model(ctx.cfg)
        self.pristine = bool(ctx.params.get("pristine_refs"))
        self.prev = "none"  # kind of the previous call on the model
        self.n_calls = 0
        self.pop_done = False
        self.pending = []

    def lib(self):
        """Pristine-reference mode: every reference execution runs in its own fresh import of
        the library, so that state a call leaves in a module, class, function default or cache
        cannot be shared by the call under test and its reference."""
        if not self.pristine:
            return None
        self.ctx.count("pristine_reference_imports")
        import core

        return core.fresh_models()

    # ---- generation
    def gen(self):
        ctx = self.ctx
        p = ctx.params
        rng = ctx.rng("workload")
        if not self.pop_done:
            self.pop_done = True
            self.pending = gen_population(rng, ctx.cfg, p["players"], p["population"])
        if self.pending:
            return self.pending.pop(0)
        if self.n_gen >= p["length"]:
            return None
        self.n_gen += 1
        names = sorted(self.league.players, key=lambda s: int(s[1:]))
        frng = ctx.rng("faults")
        if p["faults_on"] and frng.random() < p["p_fault"]:
            kind = frng.choice(p["faults_on"])
            if kind == "malformed":
                op = gen_malformed_op(frng, ctx, names, self.league)
                if op:
                    return op
            elif kind == "crash":
                inner = gen_rate_op(rng, ctx, self.league, names, p["opt_rate"])
                if inner:
                    return {"op": "CRASH", "inner": inner, "at": int(1 + 400 * frng.random() ** 2), "repair": frng.choice(["rating", "inplace", "none"])}
            else:
                scope = frng.sample(names, frng.randint(1, len(names)))
                return {"op": "RESTART", "scope": scope, "paths": [frng.choice(["rating", "create_rating", "deepcopy"]) for _ in scope]}
        if rng.random() < p.get("p_other_model", 0.0):
            return self.gen_other_model(rng)
        if rng.random() < p.get("p_extreme", 0.0):
            return self.gen_extreme(rng)
        r = rng.random()
        cold = self.n_calls == 0 and not self.had_phase
        if p["threaded"] and (r < 0.5 or (cold and r < 0.85)):
            # (a service usually meets its first requests from several workers at once: the
            # library is still cold then - nothing imported lazily, no table filled)
            op = self.gen_concurrent(rng, names)
            if op:
                return op
        if r < 0.72:
            return gen_rate_op(rng, ctx, self.league, names, p["opt_rate"], shape=tuple(p.get("shape", (4, 3))), maker=p["maker"], rule=p["rule"], rosters=self.fixed_rosters(rng, names))
        if r < 0.95:
            return gen_predict_op(rng, names, self.league, shape=tuple(p.get("shape", (4, 3))), rosters=self.fixed_rosters(rng, names))
        return {"op": "NEW", "name": "p%d" % len(names)}

    n_gen = 0
    had_phase = False
    _rosters = None

    def fixed_rosters(self, rng, names):
        if not self.ctx.params.get("fixed_rosters"):
            return None
        if self._rosters is None:
            self._rosters = make_rosters(rng, names)
        return self._rosters

    def gen_extreme(self, rng):
        """Somebody calls the shared model with well-typed but absurd values (far outside the
        valid domain: the call may well raise OverflowError or ZeroDivisionError - that is not
        judged).  Whatever happens, the model must be unchanged and later calls unaffected."""
        b = self.league.dom.beta
        if rng.random() < 0.35:
            # not absurd values but an unusually BIG game: raid-sized rosters of ordinary players
            sizes = rng.choice([[17, 17], [24, 3], [2, 40, 1], [33]])
            if len(sizes) == 1:
                sizes = sizes + [1]
            mu0, sg0 = dec(self.ctx.cfg["kwargs"]["mu"]), dec(self.ctx.cfg["kwargs"]["sigma"])
            vals = [[enc(float(mu0 + 0.01 * b * i)), enc(float(sg0))] for i in range(sum(sizes))]
            teams, k = [], 0
            for sz in sizes:
                teams.append(["x%d" % (k + j) for j in range(sz)])
                k += sz
            return {"op": "EXTREME", "values": vals, "call": {"op": "RATE", "teams": teams}, "predict": rng.choice(["win", "draw", None]), "big_roster": True}
        n = rng.choice([2, 3, 3, 9])
        vals = []
        for i in range(n):
            mu = rng.choice([1e4, -1e4, 1e6, 3e7, 1e300, -1e300, 7e3]) * b * rng.choice([1, 1, -1])
            sg = rng.choice([1e-300, 1e300, 1e160, 1.0, 1e-9]) * (b if rng.random() < 0.5 else 1.0)
            if rng.random() < 0.5:
                mu = abs(mu)  # everybody huge in the same direction: exp() overflows everywhere
            vals.append([enc(float(mu)), enc(float(sg))])
        call = {"op": "RATE", "teams": [["x%d" % i] for i in range(n)]}
        names = sorted(self.league.players, key=lambda s: int(s[1:]))
        if names and rng.random() < 0.4:
            # an established player of the league meets the corrupted records: whatever the call
            # does (it usually raises from inside the update, after it has started to write),
            # the application puts his stored values back onto the same object and carries on
            call["teams"].append([rng.choice(names)])
            n += 1
            if rng.random() < 0.6:
                call["limit_sigma"] = True
                call["tau"] = enc(rng.choice([0.5, 2.0]) * b)
        if rng.random() < 0.5:
            call.update(encode_outcome(rng, weak_order(rng, n, "tie")))
        return {"op": "EXTREME", "values": vals, "call": call, "predict": rng.choice(["win", "draw", "rank", None])}

    def gen_other_model(self, rng):
        """A SECOND model object (same or another class, other parameters) is constructed and
        used by somebody else in the process, between two calls on the league's model."""
        from league import gen_config

        other = gen_config(rng)
        if rng.random() < 0.6:
            other["model"] = self.ctx.cfg["model"]
            if other["model"].startswith("Thurstone"):
                b = dec(other["kwargs"]["beta"])
                other["kwargs"]["kappa"] = enc(min(dec(other["kwargs"]["kappa"]), 1e-2 * math.sqrt(2.0) * b * 0.999))
        n = rng.choice([2, 2, 3])
        call = {"op": "RATE", "teams": [["o%d" % i] for i in range(n)]}
        if rng.random() < 0.5:
            call.update(encode_outcome(rng, weak_order(rng, n, "tie")))
        call.update(gen_options(rng, other, rate=0.4))
        return {"op": "OTHER_MODEL", "cfg": other, "call": call, "predict": rng.choice(["win", "draw", "rank", None])}

    def gen_concurrent(self, rng, names):
        ctx = self.ctx
        p = ctx.params
        k = rng.choice([2, 2, 2, 3, 3, 4])
        k = min(k, len(names) // 2)
        if k < 2:
            return None
        pool = list(names)
        rng.shuffle(pool)
        per = len(pool) // k
        groups = [pool[i * per:(i + 1) * per] for i in range(k)]
        threads = []
        frng = ctx.rng("faults")
        predict_heavy = rng.random() < (0.4 if (self.n_calls == 0 and not self.had_phase) else 0.15)
        for g in groups:
            ops = []
            for _ in range(rng.randint(1, 3) if not predict_heavy else rng.randint(2, 4)):
                r = rng.random()
                if predict_heavy:
                    # match-making queries only, on line-ups of one of two sizes
                    o = gen_predict_op(rng, g, self.league, shape=(rng.choice([2, 2, 3]), rng.choice([1, 2])))
                    if o:
                        o["kind"] = rng.choice(["draw", "rank", "draw", "win"])
                elif "p_thread_malformed" in p and r >= 1 - p["p_thread_malformed"]:
                    o = gen_malformed_op(frng, ctx, g, self.league, calls=("rate", "rate", "rate", "win", "draw", "rank"))
                elif r < 0.75:
                    o = gen_rate_op(rng, ctx, self.league, g, max(p["opt_rate"], 0.4), shape=(3, 2), rule=p["rule"])
                elif r < 0.9:
                    o = gen_predict_op(rng, g, self.league, shape=(3, 2))
                elif "malformed" in p["faults_on"]:
                    o = gen_malformed_op(frng, ctx, g, self.league)
                else:
                    o = None
                if o:
                    ops.append(o)
            if not ops:
                o = gen_rate_op(rng, ctx, self.league, g, 0.5, shape=(2, 1))
                ops = [o] if o else []
            threads.append(ops)
        if sum(1 for t in threads if t) < 2:
            return None
        # the first library calls of a process are where lazily initialised state is set up
        # (check-then-act inside a line or two): a threaded phase that meets the library cold is
        # far more often pre-empted at every bytecode instruction
        cold = self.n_calls == 0 and not self.had_phase
        self.had_phase = True
        op = {"op": "CONCURRENT", "threads": threads, "gran": "opcode" if rng.random() < (0.4 if cold else 0.15) else "line"}
        if cold:
            ctx.count("threaded_phase_on_cold_library")
        if "crash" in p["faults_on"] and frng.random() < 0.2:
            ti = frng.randrange(k)
            if threads[ti]:
                op["crash"] = [ti, frng.randrange(len(threads[ti])), int(1 + 300 * frng.random() ** 2)]
                op["crash_repair"] = frng.choice(["rating", "inplace", "none"])
        if rng.random() < 0.25:
            # one worker serves another tenant: its own model object with other parameters
            from league import gen_config

            other = gen_config(rng)
            if rng.random() < 0.7:
                other["model"] = ctx.cfg["model"]
            if other["model"].startswith("Thurstone"):
                b = dec(other["kwargs"]["beta"])
                other["kwargs"]["kappa"] = enc(min(dec(other["kwargs"]["kappa"]), 1e-2 * math.sqrt(2.0) * b * 0.999))
            ti = rng.randrange(len(threads))
            for o in threads[ti]:
                if o.get("op") == "MALFORMED":
                    o["fault"] = {"call": o["fault"]["call"], "arg": "teams", "kind": "None"}
                for key in ("tau",):
                    if key in o:
                        o.update(gen_options(rng, other, rate=1.0))
            op["models"] = {str(ti): other}
        # two sequential orders to compare with (merge orders of thread indices)
        tags = [ti for ti, t in enumerate(threads) for _ in t]
        o2 = list(tags)
        rng.shuffle(o2)
        op["seq_orders"] = [sorted(tags, reverse=True), o2]
        return op

    # ---- execution
    def run(self):
        ctx = self.ctx
        if ctx.prop == "C14" and not ctx.params.get("threaded"):
            # the same battery at the very beginning of the model's life (not in threaded runs,
            # whose first phase must meet the library cold): what it leaves in any cache is
            # exactly what the battery at the end comes back to, after the whole history
            self.probe_battery()
        while True:
            op = ctx.next_op(self.gen)
            if op is None:
                break
            self.exec(op)
        if ctx.prop == "C14":
            self.probe_battery()

    def probe_battery(self):
        """At the end of every history: a fixed battery of valid calls (match-making queries for
        lobbies of 2..13 players, tied games given as ints and as floats) on the long-lived
        model, each compared with the same call on a fresh model in a PRISTINE import of the
        library.  Whatever the history - interleavings and killed calls included - left in a
        table, cache or latch anywhere in the process must not change what these calls
        return, whether or not the workload itself happened to come back to the poisoned entry."""
        ctx = self.ctx
        import core

        league = self.league
        kw = ctx.cfg["kwargs"]
        mu0, sg0, beta = dec(kw["mu"]), dec(kw["sigma"]), dec(kw["beta"])
        d = league.dom
        lib = core.fresh_models()
        pre = model_state(league.model)

        def values(sizes, salt):
            out = []
            for i, sz in enumerate(sizes):
                team = []
                for j in range(sz):
                    mu, sg = d.clamp(mu0 + 0.37 * beta * ((salt + 3 * i + j) % 5 - 2), sg0 * (1.0 - 0.1 * ((i + j) % 4)))
                    team.append([enc(float(mu)), enc(float(sg))])
                out.append(team)
            return out

        def compare(what, out, ref, snap):
            ctx.evaluations += 1
            ctx.count("probe_battery_calls")
            if out != ref:
                ctx.violation("C14/result_differs_from_isolated:probe_after_history", {"probe": what, "snap": snap, "got": out, "isolated": ref, "pristine_library_copy": True})

        for total in range(2, 14):
            n_teams = 2 if total < 4 else (3 if total < 8 else 4)
            sizes = [total // n_teams + (1 if i < total % n_teams else 0) for i in range(n_teams)]
            snap = values(sizes, total)
            for kind in ("draw", "rank", "win"):
                teams = [[mk_rating(league.factory, dec(mu), dec(sg), "q%d_%d_%d" % (total, i, j), ctx.stats) for j, (mu, sg) in enumerate(t)] for i, t in enumerate(snap)]
                st, val = call_outcome(lambda: do_predict(league.model, kind, teams))
                out = ("ok", enc(val)) if st == "ok" else ("exc", type(val).__name__)
                compare("predict_%s:%d_players" % (kind, total), out, ref_predict(ctx.cfg, snap, kind, "probe", stats=ctx.stats, lib=lib), snap)
        # three accounts that have never played, in their first game (the one game every
        # service sees over and over again with exactly the same numbers)
        snap = [[[enc(float(mu0)), enc(float(sg0))]] for _ in range(3)]
        for label, rk in (("newcomers_ranked", {"ranks": [1, 2, 3]}), ("newcomers_drawn", {"ranks": [1, 1, 1]})):
            teams = [[league.factory.rating()] for _ in range(3)]
            if [[enc(float(p.mu)), enc(float(p.sigma))] for t in teams for p in t] != [x for t in snap for x in t]:
                break
            st, val = call_outcome(lambda: league.model.rate(teams, **{k: list(v) for k, v in rk.items()}))
            out = ("ok", enc(result_values(val))) if st == "ok" else ("exc", type(val).__name__)
            compare("rate:" + label, out, ref_rate(ctx.cfg, snap, {k: list(v) for k, v in rk.items()}, "probe", stats=ctx.stats, lib=lib), snap)
        snap = values([1, 2, 1], 7)
        for label, rk in (("ranks_int_tie", {"ranks": [1, 1, 2]}), ("ranks_float_tie", {"ranks": [1.0, 1.0, 2.0]}), ("scores_int_tie", {"scores": [5, 9, 9]}), ("scores_float_tie", {"scores": [5.0, 9.0, 9.0]}), ("plain", {})):
            teams = [[mk_rating(league.factory, dec(mu), dec(sg), "r%d_%d" % (i, j), ctx.stats) for j, (mu, sg) in enumerate(t)] for i, t in enumerate(snap)]
            st, val = call_outcome(lambda: league.model.rate(teams, **{k: list(v) for k, v in rk.items()}))
            out = ("ok", enc(result_values(val))) if st == "ok" else ("exc", type(val).__name__)
            compare("rate:" + label, out, ref_rate(ctx.cfg, snap, {k: list(v) for k, v in rk.items()}, "probe", stats=ctx.stats, lib=lib), snap)
        self.check_model(pre, "PROBES")

    def exec(self, op):
        ctx = self.ctx
        kind = op["op"]
        ctx.count("op:" + kind)
        if kind == "NEW":
            exec_new(ctx, self.league, op)
            ctx.log("NEW", op["name"])
        elif kind in ("RATE", "PREDICT"):
            self.exec_seq_call(op)
        elif kind == "MALFORMED":
            self.exec_malformed(op)
        elif kind == "CRASH":
            self.exec_crash(op)
        elif kind == "RESTART":
            for n, path in zip(op["scope"], op["paths"]):
                if n in self.league.players:
                    restore_player(ctx, self.league, n, path)
            ctx.fault("restart_partial")
            self.prev_rebuilt = True
        elif kind == "CONCURRENT":
            self.exec_concurrent(op)
        elif kind == "OTHER_MODEL":
            self.exec_other_model(op)
        elif kind == "EXTREME":
            self.exec_extreme(op)
        else:
            raise HarnessError("unknown op %r" % kind)

    def exec_extreme(self, op):
        ctx = self.ctx
        m = self.league.model
        fac = self.league.factory
        objs = {"x%d" % i: fac.rating(mu=dec(mu), sigma=dec(sg), name="x%d" % i) for i, (mu, sg) in enumerate(op["values"])}
        real = [n for t in op["call"]["teams"] for n in t if n not in objs]
        self.league.ensure(real)
        teams = [[objs[n] if n in objs else self.league.players[n] for n in t] for t in op["call"]["teams"]]
        kw = rate_kwargs(op["call"])
        pre = model_state(m)
        outs = []
        if op.get("predict"):
            st, val = call_outcome(lambda: do_predict(m, op["predict"], teams))
            outs.append(st if st == "ok" else type(val).__name__)
        st, val = call_outcome(lambda: m.rate(teams, **kw))
        outs.append(st if st == "ok" else type(val).__name__)
        ctx.fault("big_roster_call" if op.get("big_roster") else "extreme_values_call")
        for n in real:
            restore_player(ctx, self.league, n, "inplace")
            ctx.count("league_player_in_extreme_call")
            self.prev_rebuilt = True
        self.check_model(pre, "EXTREME")
        ctx.log("EXTREME", outs)
        self.prev = "reject"

    def exec_other_model(self, op):
        ctx = self.ctx
        pre = model_state(self.league.model)
        other = League(op["cfg"])
        rec = exec_call(Ctx(ctx.prop, op["cfg"], {}), other, op["call"])
        if op.get("predict"):
            st, val = call_outcome(lambda: do_predict(other.model, op["predict"], other.teams_of(op["call"]["teams"])))
        ctx.fault("other_model_in_process")
        self.check_model(pre, "OTHER_MODEL")
        ctx.log("OTHER_MODEL", op["cfg"]["model"], rec["out"])
        self.prev = "opt"

    prev_rebuilt = False

    def check_model(self, pre, what):
        if self.ctx.prop != "C14":
            return
        post = model_state(self.league.model)
        self.ctx.evaluations += 1
        d = diff_state(pre, post)
        if d:
            self.ctx.violation("C14/model_attr_changed:%s" % ",".join(d), {"after": what, "attrs": d, "before": {k: pre.get(k) for k in d}, "now": {k: post.get(k) for k in d}})

    def exec_seq_call(self, op, tracer=None, hist=None):
        ctx = self.ctx
        pre = model_state(self.league.model)
        rec = exec_call(ctx, self.league, op, tracer)
        self.check_model(pre, op["op"])
        if rec["out"][0] == "crash":
            return rec
        self.judge(rec, hist or "sequential", nontrivial=(self.prev in ("opt", "reject", "crash") or self.prev_rebuilt))
        ctx.log(op["op"], rec["out"])
        ctx.numdigest.add(rec["out"])
        has_opt = "tau" in op or "limit_sigma" in op
        self.prev = "opt" if has_opt else "plain"
        self.prev_rebuilt = False
        self.n_calls += 1
        return rec

    def judge(self, rec, hist, nontrivial):
        """Compare a completed valid call with its reference execution."""
        ctx = self.ctx
        op = rec["op"]
        out = rec["out"]
        cfg = rec.get("cfg", ctx.cfg)
        if ctx.prop == "C14":
            ids = id_mode(rec["snap"])
            lib = self.lib()
            if op["op"] == "RATE":
                ref = ref_rate(cfg, rec["snap"], rate_kwargs(op, distinct=True), "iso%d" % ctx.i, stats=ctx.stats, lib=lib, ids=ids, warm=(h64(rec["snap"]) % 3 == 1))
            else:
                ref = ref_predict(cfg, rec["snap"], op["kind"], "iso%d" % ctx.i, stats=ctx.stats, lib=lib, ids=ids)
            ctx.evaluations += 1
            ctx.count("iso_ids:%s" % (ids or "fresh"))
            if ref != out:
                ctx.violation("C14/result_differs_from_isolated:%s" % hist, {"op": op, "snap": rec["snap"], "got": out, "isolated": ref, "isolated_ids": ids or "fresh", "pristine_library_copy": lib is not None})
            if nontrivial:
                ctx.nontrivial.add(h64([ctx.cfg["model"], rec["snap"], op.get("ranks"), op.get("scores"), op.get("tau"), op.get("limit_sigma"), op.get("kind"), hist]))
        elif ctx.prop == "C13":
            # every well-formed call is accepted - also while other calls are in flight
            ctx.evaluations += 1
            ctx.count("wellformed_in_service:" + hist)
            if out[0] == "exc" and out[1] in ("TypeError", "ValueError"):
                ctx.violation("C13/rejected_wellformed:%s_in_service" % op["op"].lower(), {"op": op, "snap": rec["snap"], "exception": out[1], "history": hist})
        elif ctx.prop == "C06":
            if op["op"] != "RATE" or out[0] != "ok" or rec.get("shape_bad"):
                return
            kwargs = cfg["kwargs"]
            tau = dec(op["tau"]) if "tau" in op else dec(kwargs["tau"])
            limit = op["limit_sigma"] if "limit_sigma" in op else bool(kwargs["limit_sigma"])
            where = {"model": cfg["model"], "op": op, "snap": rec["snap"], "gamma": kwargs.get("gamma"), "history": hist,
                     "tau_source": "per_call_tau" if "tau" in op else "model_tau",
                     "limit_source": "per_call_limit" if "limit_sigma" in op else "model_limit"}
            ctx.evaluations += 1
            ctx.count("sigma_bounds_checked_in_service:" + hist)
            try:
                check_sigma(dec(rec["snap"]), dec(out[1]), float(tau), limit, where)
            except Violation as v:
                raise Violation(v.prop, v.cls, v.detail, ctx.i)
            if nontrivial and hist == "threaded":
                ctx.nontrivial.add(h64([cfg["model"], rec["snap"], op.get("ranks"), op.get("scores"), op.get("tau"), op.get("limit_sigma"), hist]))
        elif ctx.prop == "C15":
            if op["op"] != "RATE" or out[0] != "ok":
                return
            kw = rate_kwargs(op)
            t = kw.pop("tau", None)
            b = kw.pop("limit_sigma", None)
            ref = ref_rate(cfg, rec["snap"], kw, "cfg%d" % ctx.i, tau=t, limit_sigma=b, stats=ctx.stats, lib=self.lib(), warm=(h64(rec["snap"]) % 3 == 0))
            ctx.evaluations += 1
            if ref != out:
                cls = self.classify_c15(rec, kw, t, b, out)
                ctx.violation(cls, {"op": op, "snap": rec["snap"], "got": out, "constructed": ref, "history": hist})
            if t is not None or b is not None:
                plain = ref_rate(cfg, rec["snap"], kw, "pl%d" % ctx.i, stats=ctx.stats)
                model_t = dec(cfg["kwargs"]["tau"])
                differs = (t is not None and float(t) != model_t) or (b is not None and bool(b) != bool(cfg["kwargs"]["limit_sigma"]))
                if plain != out:
                    ctx.probe("option_live")
                    if differs:
                        ctx.nontrivial.add(h64([ctx.cfg["model"], rec["snap"], op.get("ranks"), op.get("scores"), op.get("tau"), op.get("limit_sigma")]))
                if t is not None:
                    ctx.probe("tau:" + tau_kind(t))
                if b is not None:
                    ctx.probe("limit_sigma:%s_over_%s" % (b, cfg["kwargs"]["limit_sigma"]))

    def classify_c15(self, rec, kw, t, b, out):
        ctx = self.ctx
        cfg = rec.get("cfg", ctx.cfg)
        if t is None and b is None:
            return "C15/omitted_option_differs"
        if t is not None and b is None:
            return "C15/per_call_tau_differs:" + tau_kind(t)
        if b is not None and t is None:
            return "C15/per_call_limit_sigma_differs:%s" % b
        # both given: attribute by two more reference executions
        kw_b = dict(kw, limit_sigma=b)
        ref_a = ref_rate(cfg, rec["snap"], kw_b, "ca%d" % ctx.i, tau=t)  # tau model-level, b per call
        if ref_a == out:
            return "C15/per_call_limit_sigma_differs:%s" % b
        kw_t = dict(kw, tau=t)
        ref_b = ref_rate(cfg, rec["snap"], kw_t, "cb%d" % ctx.i, limit_sigma=b)
        if ref_b == out:
            return "C15/per_call_tau_differs:" + tau_kind(t)
        return "C15/per_call_tau_differs:%s+limit_sigma:%s" % (tau_kind(t), b)

    def exec_malformed(self, op):
        ctx = self.ctx
        names = op["teams"]
        self.league.ensure(flat(names))
        pre = model_state(self.league.model)
        st, val, verdict = malformed_call(ctx, self.league, op)
        ctx.fault("malformed")
        if ctx.prop == "C13":
            ctx.evaluations += 1
            ctx.count("malformed_in_service:sequential")
            if verdict is None:
                d = diff_state(pre, model_state(self.league.model))
                if d:
                    verdict = ("C13/side_effect:%s:model.%s" % (faults.fault_label(op["fault"]), ",".join(d)), {"fault": op["fault"], "teams": names})
            if verdict:
                ctx.violation(*verdict)
        self.check_model(pre, "MALFORMED")
        ctx.log("MALFORMED", faults.fault_label(op["fault"]), st if st == "ok" else type(val).__name__)
        self.prev = "reject"

    def exec_crash(self, op):
        ctx = self.ctx
        inner = op["inner"]
        lc = S.LineCounter(crash_at=op["at"])

        def tracer(fn):
            return lc.run(fn)

        rec = self.exec_seq_call(inner, tracer=tracer, hist="sequential")
        if rec["out"][0] == "crash":
            ctx.fault("crash_line")
            ctx.log("CRASH", list(lc.fired_loc))
            for n in flat(inner["teams"]):
                restore_player(ctx, self.league, n, op.get("repair", "rating"))
            self.prev = "crash"
        else:
            ctx.count("crash_missed")

    # ---- threaded phase
    def exec_concurrent(self, op):
        ctx = self.ctx
        league = self.league
        threads = op["threads"]
        n = len(threads)
        for t in threads:
            for o in t:
                league.ensure(flat(o["teams"]))
        pre_values = {nm: [enc(p.mu), enc(p.sigma)] for nm, p in league.players.items()}
        pre = model_state(league.model)
        records = [[] for _ in range(n)]
        crash = op.get("crash")
        main_league = league
        leagues = [self.thread_league(op, ti, pre_values) for ti in range(n)]
        if op.get("models"):
            ctx.fault("other_model_in_thread")

        def body_for(ti):
            ops = threads[ti]
            league = leagues[ti]

            def body(sc, i):
                def tracer(fn):
                    sc.begin_call(i)
                    try:
                        return ("ok", fn())
                    except S.SimCrash:
                        sc.rearm(i)
                        return ("crash", None)
                    except Exception as e:
                        return ("exc", e)
                    finally:
                        sc.end_call(i)

                for k, o in enumerate(ops):
                    sw0 = sc.switches
                    if o["op"] == "MALFORMED":
                        st, val, verdict = malformed_call(ctx, league, o, tracer)
                        rec = {"op": o, "out": ("rejected", st if st != "exc" else type(val).__name__), "verdict": verdict}
                    else:
                        rec = exec_call(ctx, league, o, tracer)
                        if rec["out"][0] == "crash":
                            for nm in flat(o["teams"]):
                                restore_player(ctx, league, nm, op.get("crash_repair", "rating"))
                            if op.get("crash_repair") == "none":
                                # what the killed call left in the objects is what the thread's
                                # later calls are given (the sequential re-run starts from it too)
                                rec["torn"] = {nm: [enc(league.players[nm].mu), enc(league.players[nm].sigma)] for nm in flat(o["teams"])}
                    rec["switched"] = sc.switches - sw0
                    records[i].append(rec)

            return body

        est = 0
        for t in threads:
            for o in t:
                np_ = len(flat(o["teams"]))
                est += 150 + 60 * np_ + 30 * len(o["teams"]) ** 2
        if op["gran"] == "opcode":
            est *= 6
        if "schedule" in op:
            chooser = S.ReplayChooser(op["schedule"])
        else:
            srng = ctx.rng("schedule")
            strat, sp = S.gen_strategy(srng, n, est)
            probe = None
            pk = srng.random()
            if pk < 0.5:
                m = league.model
                md = getattr(m, "__dict__", {})
                probe = lambda: tuple((k, v if type(v) in (int, float, bool, str, type(None)) else id(v)) for k, v in md.items())
            elif pk < 0.75:
                probe = deep_probe(league.model)
            chooser = S.GenChooser(srng, n, strat, sp, probe)
            ctx.count("strategy:" + strat + ("+overlay" if pk < 0.5 else "+deep_overlay" if pk < 0.75 else ""))
        sc = S.Sched(n, chooser, gran=op["gran"], crash=crash)
        sc.run([body_for(ti) for ti in range(n)])
        op["schedule"] = sc.decisions
        ctx.fault("preempt", sc.switches)
        ctx.count("switches_overlapping", sc.switches_overlap)
        ctx.count("threaded_phases")
        ctx.count("writes_seen", sc.writes_seen)
        ctx.count("lock_waits", sc.lock_waits)
        if isinstance(chooser, S.GenChooser):
            ctx.count("overlay_fired", chooser.overlay_fired)
        if sc.crash_fired:
            ctx.fault("crash_line_threaded")
        ctx.steps += sc.steps
        ctx.sigs.add(sc.signature())
        if op["gran"] == "opcode":
            ctx.instr_sites |= sc.switch_sites
            ctx.instr_seen |= sc.lines_seen
            ctx.count("threaded_phases_instruction_level")
        else:
            ctx.switch_sites |= sc.switch_sites
            ctx.lines_seen |= sc.lines_seen
        ctx.log("CONCURRENT", sc.decisions, sc.signature())
        self.check_model(pre, "CONCURRENT")
        # per-call reference executions, after the join
        for ti in range(n):
            for rec in records[ti]:
                if rec["op"]["op"] == "MALFORMED" and ctx.prop == "C13" and rec["out"][1] != "crash":
                    # O_reject holds for a malformed call whoever else is using the model
                    ctx.evaluations += 1
                    ctx.count("malformed_in_service:threaded")
                    if rec.get("verdict"):
                        ctx.violation(rec["verdict"][0], dict(rec["verdict"][1], thread=ti, history="threaded"))
                if rec["op"]["op"] == "MALFORMED" or rec["out"][0] == "crash":
                    continue
                self.judge(rec, "threaded", nontrivial=(rec["switched"] > 0 or n > 1))
                ctx.log("T", ti, rec["out"])
                ctx.numdigest.add(rec["out"])
        # literal form of the statement: same ops one after another, in two orders
        if ctx.prop == "C14":
            for order in op.get("seq_orders", []):
                self.rerun_sequential(op, pre_values, records, order)
        self.prev = "opt"
        self.prev_rebuilt = False

    def thread_league(self, op, ti, pre_values, base=None):
        """The league a worker thread operates on: the shared one, or - if the op gives this
        thread a model of its own - a private league around that other model object, holding
        copies (clamped into ITS domain) of the players the thread's ops name."""
        cfg2 = (op.get("models") or {}).get(str(ti))
        if cfg2 is None:
            return base if base is not None else self.league
        lg = League(cfg2)
        lg.factory = build_model(cfg2)
        for o in op["threads"][ti]:
            for nm in flat(o["teams"]):
                if nm in lg.players:
                    continue
                mu, sg = pre_values.get(nm, [None, None])
                if mu is None:
                    lg.join(nm)
                    continue
                mu, sg = lg.dom.clamp(dec(mu), dec(sg))
                lg.players[nm] = mk_rating(lg.factory, mu, sg, nm, self.ctx.stats)
                lg.save(nm)
        return lg

    def rerun_sequential(self, op, pre_values, records, order):
        ctx = self.ctx
        l2 = League(ctx.cfg)
        for nm, (mu, sg) in pre_values.items():
            l2.players[nm] = mk_rating(l2.model, dec(mu), dec(sg), nm, ctx.stats)
            l2.save(nm)
        l2s = [self.thread_league(op, ti, pre_values, base=l2) for ti in range(len(op["threads"]))]
        sub = Ctx(ctx.prop, ctx.cfg, ctx.params)
        sub.i = ctx.i
        pos = [0] * len(op["threads"])
        for ti in order:
            if ti >= len(pos) or pos[ti] >= len(op["threads"][ti]):
                continue
            k = pos[ti]
            pos[ti] += 1
            if k >= len(records[ti]):
                continue
            o = op["threads"][ti][k]
            rec = records[ti][k]
            if o["op"] == "MALFORMED":
                continue
            if rec["out"][0] == "crash":
                # the killed call itself left nothing behind (players restored from the
                # store), but what the service did BEFORE calling - re-seeding a player that
                # had left the domain - did happen and was stored
                prepare_call(sub, l2s[ti], o)
                for nm, (mu, sg) in (rec.get("torn") or {}).items():
                    l2s[ti].players[nm] = mk_rating(l2s[ti].model, dec(mu), dec(sg), nm, ctx.stats)
                    l2s[ti].save(nm)
                continue
            r2 = exec_call(sub, l2s[ti], o)
            ctx.evaluations += 1
            if r2["out"] != rec["out"]:
                ctx.violation("C14/differs_from_sequential_order", {"thread": ti, "call": k, "op": o, "threaded": rec["out"], "sequential": r2["out"], "order": order})


# ====================================================================== C06 driver


def c06_params(rng):
    return {
        "length": rng.choice([60, 150, 400, 1000]),
        "players": rng.choice([4, 6, 10, 20, 40]),
        "population": rng.choice(["default", "mixed", "spread", "smurf", "smurf"]),
        "opt_rate": rng.choice([0.0, 0.15, 0.4]),
        "maker": rng.choice(["random", "closest", "farthest", "farthest"]),
        "rule": rng.choice(["uniform", "skill", "upset", "upset", "tie", "tie"]),
        "shape": rng.choice([[2, 1], [2, 2], [4, 3], [8, 8], [3, 1], [6, 2], [7, 1], [5, 3], [8, 2]]),
        "p_restart": rng.choice([0.0, 0.02, 0.1]),
        "p_malformed": rng.choice([0.0, 0.03, 0.1]),
    }


def c06_params_all(rng):
    p = _c06_params_all(rng)
    big = rng.random()
    wide = rng.random() < 0.5
    if big < 0.05 and not p.get("threaded_service"):
        # battle-royale lobbies: up to 100 teams per game, many shared places
        p.update(players=110, shape=[100, 1] if wide else [40, 3], length=rng.choice([20, 40]), rule=rng.choice(["tie", "tie", "uniform", "upset"]))
    return p


def _c06_params_all(rng):
    """C06 runs: the closed-loop league of SigmaDriver, and - in a small share of runs - the
    rating SERVICE of the C14/C15 checks (one shared model, worker threads on disjoint players,
    calls carrying other options in flight at the same time, killed and rejected calls in
    between) with the sigma bounds evaluated on every completed rate call: the bounds are a
    postcondition of each call, whoever else is using the model at that moment."""
    p = c06_params(rng)
    if rng.random() < 0.05:
        q = _calls_params(rng, "C15")
        q.update(threaded=True, threaded_service=True, length=rng.choice([8, 12, 20]), pristine_refs=False, p_extreme=0.0, house_outcomes=False)
        return q
    return p


def c06_driver(ctx):
    return CallsDriver(ctx) if ctx.params.get("threaded_service") else SigmaDriver(ctx)


class SigmaDriver:
    """Closed-loop league histories with the sigma bounds monitored (C06)."""

    def __init__(self, ctx):
        self.ctx = ctx
        self.league = League(ctx.cfg)
        self.traj = {}  # name -> [base_sq, acc_tau_sq, last_sigma]
        self.pop_done = False
        self.pending = []
        self.n_gen = 0
        self.model_tau = dec(ctx.cfg["kwargs"]["tau"])
        self.model_limit = bool(ctx.cfg["kwargs"]["limit_sigma"])
        self.tm = ctx.cfg["model"].startswith("Thurstone")

    def gen(self):
        ctx = self.ctx
        p = ctx.params
        rng = ctx.rng("workload")
        if not self.pop_done:
            self.pop_done = True
            self.pending = gen_population(rng, ctx.cfg, p["players"], p["population"])
        if self.pending:
            return self.pending.pop(0)
        if self.n_gen >= p["length"]:
            return None
        self.n_gen += 1
        names = sorted(self.league.players, key=lambda s: int(s[1:]))
        frng = ctx.rng("faults")
        if frng.random() < p["p_restart"]:
            scope = frng.sample(names, frng.randint(1, len(names)))
            return {"op": "RESTART", "scope": scope, "paths": [frng.choice(["rating", "create_rating", "deepcopy"]) for _ in scope]}
        if frng.random() < p.get("p_malformed", 0.0):
            # a client submits a malformed report; the service catches the TypeError/ValueError
            # and carries on with the very same rating objects
            op = gen_malformed_op(frng, ctx, names, self.league, calls=("rate",))
            if op:
                return op
        return gen_rate_op(rng, ctx, self.league, names, p["opt_rate"], shape=tuple(p["shape"]), maker=p["maker"], rule=p["rule"])

    def run(self):
        ctx = self.ctx
        while True:
            op = ctx.next_op(self.gen)
            if op is None:
                break
            kind = op["op"]
            ctx.count("op:" + kind)
            if kind == "NEW":
                exec_new(ctx, self.league, op)
            elif kind == "RESTART":
                for n, path in zip(op["scope"], op["paths"]):
                    if n in self.league.players:
                        before = self.league.players[n].sigma
                        new = restore_player(ctx, self.league, n, path)
                        tr = self.traj.get(n)
                        if tr is not None and enc(new.sigma) != enc(tr[2]):
                            ctx.violation("C06/trajectory_bound:restart_discontinuity", {"name": n, "stored": enc(tr[2]), "restored": enc(new.sigma)})
                ctx.fault("restart_partial")
            elif kind == "RATE":
                self.exec_rate(op)
            elif kind == "MALFORMED":
                self.league.ensure(flat(op["teams"]))
                st, val, _ = malformed_call(ctx, self.league, op)
                ctx.fault("malformed")
                ctx.log("MALFORMED", st if st == "ok" else type(val).__name__)
            else:
                raise HarnessError("unknown op %r" % kind)

    def exec_rate(self, op):
        ctx = self.ctx
        rec = exec_call(ctx, self.league, op)
        for n in rec["reseeded"]:
            self.traj.pop(n, None)
        if rec["out"][0] != "ok":
            ctx.log("RATE", rec["out"])
            return
        if rec.get("shape_bad"):
            return
        tau = dec(op["tau"]) if "tau" in op else self.model_tau
        limit = op["limit_sigma"] if "limit_sigma" in op else self.model_limit
        prior = dec(rec["snap"])
        post = dec(rec["out"][1])
        ctx.evaluations += 1
        where = {"model": ctx.cfg["model"], "op": op, "snap": rec["snap"], "gamma": ctx.cfg["kwargs"].get("gamma"),
                 "tau_source": "per_call_tau" if "tau" in op else "model_tau",
                 "limit_source": "per_call_limit" if "limit_sigma" in op else "model_limit"}
        check_sigma(prior, post, tau, limit, where)
        # trajectories and probes
        names = op["teams"]
        beta = self.league.dom.beta
        kappa = dec(ctx.cfg["kwargs"]["kappa"])
        nontriv = False
        for t, tp, tq in zip(names, prior, post):
            for n, p, q in zip(t, tp, tq):
                s0, s1 = p[1], q[1]
                tr = self.traj.get(n)
                if tr is None:
                    tr = self.traj[n] = [s0 * s0, 0.0, s0, 0]
                else:
                    # game to game along the trajectory: measured from what the player's
                    # PREVIOUS game left (not from what the objects hold now - nothing but a
                    # game, a restart from the store or a re-seed touches them in between)
                    prev = tr[2]
                    if s1 > tau_bound(prev, tau) * (1 + 1e-14):
                        ctx.violation("C06/trajectory_bound:growth_between_consecutive_games", dict(where, name=n, after_previous_game=enc(prev), prior_now=enc(s0), post=enc(s1), tau=enc(tau)))
                    if limit and s1 > prev:
                        ctx.violation("C06/trajectory_bound:rose_between_consecutive_games_under_limit", dict(where, name=n, after_previous_game=enc(prev), prior_now=enc(s0), post=enc(s1)))
                tr[1] += tau * tau
                tr[3] += 1
                # rounding slack grows with the length of the trajectory: every game rounds
                # sqrt(s^2 + tau^2) and the shrink product (a few ulp of sigma^2 per game)
                if tr[0] + tr[1] > 1e-280 and s1 * s1 > (tr[0] + tr[1]) * (1 + 4e-14 + 2e-15 * tr[3]):
                    # (below 1e-280 the squares are subnormal or nearly so and carry only a few
                    # bits: the clause is checked per game, in tau_bound's robust form, only)
                    ctx.violation("C06/trajectory_bound", dict(where, name=n, start_sq=enc(tr[0]), acc_tau_sq=enc(tr[1]), post=enc(s1)))
                tr[2] = s1
                infl = math.sqrt(s0 * s0 + tau * tau)
                if limit and s1 == s0 and infl > s0:
                    ctx.probe("clamp_fired")
                    nontriv = True
                if s1 > s0:
                    ctx.probe("sigma_rose")
                if infl > 0 and abs(s1 / infl - 1) < 1e-6:
                    ctx.probe("bound_tight")
                    nontriv = True
                if infl > 0 and abs(s1 / infl - math.sqrt(kappa)) < 1e-9 * math.sqrt(kappa) + 1e-15:
                    ctx.probe("kappa_floor")
                    nontriv = True
        if "tau" in op and dec(op["tau"]) == 0 and self.model_tau > 0:
            ctx.probe("per_call_tau0_over_model_tau")
        if op.get("limit_sigma") is False and self.model_limit:
            ctx.probe("per_call_nolimit_over_model_limit")
        if self.tm and len(names) >= 2:
            # far-apart pairs ending in an upset or tie (the lower-tail region of W / W~)
            tmu = [sum(x[0] for x in tp) for tp in prior]
            tsq = [sum(x[1] * x[1] + tau * tau for x in tp) for tp in prior]
            place = self.places(op, len(names))
            for i in range(len(names)):
                for j in range(i + 1, len(names)):
                    c = math.sqrt(tsq[i] + tsq[j] + 2 * beta * beta)
                    if ctx.cfg["model"].endswith("Part"):
                        c *= 2
                    d = (tmu[i] - tmu[j]) / c
                    if 5 <= abs(d) <= 8.3:
                        upset = (d > 0 and place[i] > place[j]) or (d < 0 and place[j] > place[i])
                        if upset or place[i] == place[j]:
                            ctx.probe("tm_far_upset_or_tie")
                            nontriv = True
                    elif abs(d) > 8.3 and place[i] != place[j]:
                        ctx.probe("tm_asymptotic_region")
        if nontriv:
            ctx.nontrivial.add(h64([ctx.cfg["model"], rec["snap"], op.get("ranks"), op.get("scores"), op.get("tau"), op.get("limit_sigma")]))
        ctx.log("RATE", rec["out"])

    @staticmethod
    def places(op, n):
        if "ranks" in op:
            return [float(x) for x in dec(op["ranks"])]
        if "scores" in op:
            return [-float(x) for x in dec(op["scores"])]
        return list(range(n))


# ====================================================================== C13 driver


def c13_params(rng):
    return {
        "length": rng.choice([6, 10, 16]),
        "players": rng.choice([8, 12]),
        "population": rng.choice(["default", "mixed", "spread"]),
        "inject_every": rng.choice([2, 3, 5]),
        "shape": rng.choice([[2, 1], [2, 2], [3, 2], [3, 3], [4, 2], [5, 1], [6, 2], [7, 1], [8, 8], [10, 1], [2, 10], [12, 1]]),
        "opt_rate": 0.2,
    }


def c13_params_all(rng):
    """C13 runs: the complete enumeration of RejectDriver, and - in a small share of runs - the
    rating SERVICE of the C14/C15 checks (one shared model, worker threads on disjoint
    players) in which a large share of the requests is malformed: a malformed call must be
    refused, and a well-formed one accepted, whoever else is inside the library right now."""
    p = c13_params(rng)
    if rng.random() < 0.5:
        q = _calls_params(rng, "C15")
        q.update(threaded=True, threaded_service=True, length=rng.choice([8, 12, 20]), pristine_refs=False, p_extreme=0.0, p_other_model=0.0,
                 house_outcomes=False, faults_on=["malformed"], p_fault=0.15, p_thread_malformed=0.45)
        return q
    return p


def c13_driver(ctx):
    return CallsDriver(ctx) if ctx.params.get("threaded_service") else RejectDriver(ctx)


class RejectDriver:
    """Malformed-call faults enumerated at every position of games reached in a league (C13)."""

    def __init__(self, ctx):
        self.ctx = ctx
        self.league = League(ctx.cfg)
        self.pop_done = False
        self.pending = []
        self.n_gen = 0

    def gen(self):
        ctx = self.ctx
        p = ctx.params
        rng = ctx.rng("workload")
        if not self.pop_done:
            self.pop_done = True
            self.pending = gen_population(rng, ctx.cfg, p["players"], p["population"])
        if self.pending:
            return self.pending.pop(0)
        if self.n_gen >= p["length"]:
            return None
        self.n_gen += 1
        names = sorted(self.league.players, key=lambda s: int(s[1:]))
        if self.n_gen % p["inject_every"] == 0:
            frng = ctx.rng("faults")
            shape = tuple(p["shape"])
            teams = gen_match(frng, names, self.league, shape_max=shape)
            if teams:
                sizes = [len(t) for t in teams]
                big = sum(sizes) > 9 or len(sizes) > 5
                g = faults.grammar(sizes, ctx.cfg["model"], positions=(250 if big else "all"), rng=frng)
                return {"op": "INJECT", "teams": teams, "faults": g, "twins": True, "raw": self.gen_raw(frng, teams)}
        r = rng.random()
        if r < 0.85:
            return gen_rate_op(rng, ctx, self.league, names, p["opt_rate"], shape=(4, 3))
        return gen_predict_op(rng, names, self.league)

    def gen_raw(self, frng, teams):
        """Some participants arrive as the application typed them in, not as an earlier rate()
        left them: whole numbers (`rating(mu=25, sigma=8)`), an int zero, a sigma of 0 (known
        exactly; only where the model's tau makes the game computable).  Such ratings are the
        model's own rating objects - calls with them are well-formed, and a refused call must
        leave them exactly as they are (an int stays that int)."""
        d = self.league.dom
        kw = self.ctx.cfg["kwargs"]
        mu0, sg0, mt = dec(kw["mu"]), dec(kw["sigma"]), dec(kw["tau"])
        raw = {}
        for nme in flat(teams):
            r = frng.random()
            if r < 0.2:
                mu = frng.choice([0, int(mu0), int(mu0) + 3]) if abs(int(mu0)) + 3 <= d.mu_max else 0
                sg = int(min(d.sig_max, max(1, round(sg0)))) if d.sig_max >= 1 and d.sig_min <= 1 else enc(min(d.sig_max, max(d.sig_min, sg0)))
                raw[nme] = [mu, sg]
            elif r < 0.3 and mt >= 1e-3 * d.beta:
                raw[nme] = [frng.choice([0, enc(min(d.mu_max, max(-d.mu_max, mu0)))]), frng.choice([0, enc(0.0), enc(-0.0)])]
        return raw

    def run(self):
        ctx = self.ctx
        while True:
            op = ctx.next_op(self.gen)
            if op is None:
                break
            kind = op["op"]
            ctx.count("op:" + kind)
            if kind == "NEW":
                exec_new(ctx, self.league, op)
            elif kind in ("RATE", "PREDICT"):
                rec = exec_call(ctx, self.league, op)
                ctx.log(kind, rec["out"])
            elif kind == "INJECT":
                self.exec_inject(op)
            else:
                raise HarnessError("unknown op %r" % kind)

    def exec_inject(self, op):
        ctx = self.ctx
        league = self.league
        names = op["teams"]
        league.ensure(flat(names))
        league.reseed_out_of_domain(names, tau_zero=True)
        zero_sigma = False
        raw = sorted((n, dec(v[0]), dec(v[1])) for n, v in (op.get("raw") or {}).items() if n in league.players)

        def type_in():
            # fresh objects holding the values as typed (an accepted call may have normalised
            # the previous ones, which is not this property's business)
            for nme, mu, sg in raw:
                league.players[nme] = league.factory.rating(mu=mu, sigma=sg, name=league.label(nme))
                league.save(nme)

        type_in()
        for nme, mu, sg in raw:
            zero_sigma = zero_sigma or sg == 0
            ctx.fault("hand_written_rating_values")
        model_name = ctx.cfg["model"]
        # a long-lived argument structure (outer list + roster lists) that the library has
        # already ACCEPTED: in-place faults are written into these very list objects
        accepted = league.teams_of(names)
        for kind in ("win", "draw", "rank"):
            call_outcome(lambda: do_predict(league.model, kind, accepted))
        for k_fault, desc in enumerate(op["faults"]):
            saved = None
            if desc.get("inplace"):
                league.teams_of(names)  # refresh the roster lists in place
                teams = accepted
                # the structure was accepted by the call immediately before the corrupted one
                call_outcome(lambda: do_predict(league.model, ("win", "draw", "rank")[len(desc.get("pos", [])) % 3], accepted))
                saved = (list(teams), [list(x) for x in teams])
                ctx.count("inplace_faults")
            else:
                if raw:
                    type_in()
                teams = league.teams_of(names)
            call, args, kw = faults.build_call(desc, model_name, teams)
            label = faults.fault_label(desc)
            if call == "rate" and k_fault % 5 < 2:
                # an otherwise ordinary malformed report may well carry per-call options that
                # differ from the model's (a rejected call must not leave them on the model)
                if k_fault % 5 == 0:
                    kw["tau"] = dec(ctx.cfg["kwargs"]["tau"]) * 2.0 + 0.25 * league.dom.beta
                kw["limit_sigma"] = not ctx.cfg["kwargs"]["limit_sigma"]
                ctx.count("malformed_with_per_call_options")
            objs = reachable_ratings([args, kw, teams])
            pre_r = rating_digest(objs)
            target = league.model
            if not desc.get("inplace") and h64([label, desc.get("pos"), desc.get("len")]) % 6 == 0:
                # the service has just been restarted: a model object constructed a moment ago,
                # and the very first call it ever sees is this malformed one (state that
                # validation sets up lazily must not appear on a model that refuses the call)
                target = build_model(ctx.cfg)
                ctx.fault("malformed_first_call_on_new_model")
            pre_m = model_state(target)
            st, val = call_outcome(lambda: faults.invoke(target, call, args, kw))
            ctx.evaluations += 1
            ctx.fault("malformed")
            if st != "ok" and (len(label) + len(names)) % 5 == 0 and not any(k in label for k in ("generator", "map")):
                # the very same malformed call once more: it must be refused the same way
                st2, val2 = call_outcome(lambda: faults.invoke(target, call, args, kw))
                ctx.count("malformed_call_repeated")
                if st2 == "ok" or type(val2) is not type(val):
                    st, val = st2, val2
            post_r = rating_digest(objs)
            post_m = model_state(target)
            if saved is not None:
                faults.undo_inplace(teams, saved)
            det = {"fault": desc, "teams": names, "snap": snap_teams(league.teams_of(names))}
            if st == "ok":
                ctx.violation("C13/accepted:%s" % label, det)
            if not isinstance(val, (TypeError, ValueError)):
                ctx.violation("C13/wrong_exception:%s:%s" % (label, type(val).__name__), dict(det, message=str(val)[:200]))
            if pre_r != post_r:
                changed = [i for i, (a, b) in enumerate(zip(pre_r, post_r)) if a != b]
                ctx.violation("C13/side_effect:%s:rating" % label, dict(det, exception=type(val).__name__, changed=len(changed), before=pre_r[changed[0]], after=post_r[changed[0]]))
            d = diff_state(pre_m, post_m)
            if d:
                ctx.violation("C13/side_effect:%s:model.%s" % (label, ",".join(d)), dict(det, exception=type(val).__name__))
            # the live league objects must be untouched too (same objects here, checked above)
            if len(objs) > 0:
                ctx.nontrivial.add(h64([model_name, label, desc.get("pos"), desc.get("len"), det["snap"]]))
            ctx.log("F", label, type(val).__name__)
        if op.get("twins"):
            n = len(names)
            for label, kw in faults.wellformed_twins(n):
                if zero_sigma and "tau" in kw and not kw["tau"] >= 1e-3 * league.dom.beta:
                    # a sigma of exactly 0 and no additive dynamics: a team variance of 0, the
                    # game is outside the domain in which the library computes anything
                    continue
                # on rebuilt copies, so that the league's own history is not disturbed
                teams = [[mk_rating(league.model, p.mu, p.sigma, p.name) for p in t] for t in league.teams_of(names)]
                st, val = call_outcome(lambda: faults.invoke(league.model, "rate", (teams,), kw))
                ctx.evaluations += 1
                ctx.count("wellformed_twin")
                if st != "ok":
                    ctx.violation("C13/rejected_wellformed:%s" % label, {"teams": names, "kwargs": repr(kw), "exception": type(val).__name__, "message": str(val)[:200]})
            for kind in ("win", "draw", "rank"):
                teams = league.teams_of(names)
                st, val = call_outcome(lambda: do_predict(league.model, kind, teams))
                ctx.evaluations += 1
                if st != "ok":
                    ctx.violation("C13/rejected_wellformed:predict_%s" % kind, {"teams": names, "exception": type(val).__name__, "message": str(val)[:200]})
            self.repeated_objects(names)
            self.subclassed_ratings(names)
            self.ambiguous_elements(names)
            if not self.big_done:
                self.big_done = True
                self.big_game()

    big_done = False

    def big_game(self):
        """Once per run: a well-formed game far larger than anything else here (300 teams of
        one default player): rate with ranks, rate with scores, predict_win must be accepted."""
        ctx = self.ctx
        m = self.league.model
        n = 300
        for label, kw in (("ranks", {"ranks": list(range(1, n + 1))}), ("scores", {"scores": [float(n - i) for i in range(n)]}), ("omitted", {})):
            teams = [[m.rating()] for _ in range(n)]
            st, val = call_outcome(lambda: m.rate(teams, **kw))
            ctx.evaluations += 1
            ctx.count("big_game_300_teams")
            if st != "ok" and isinstance(val, (TypeError, ValueError)):
                ctx.violation("C13/rejected_wellformed:300_teams_%s" % label, {"exception": type(val).__name__, "message": str(val)[:200]})

    def ambiguous_elements(self, names):
        """Rank/score elements whose status the property leaves open (complex, Decimal,
        Fraction, NaN, inf): 'numbers' or not?  Whatever the library decides, one of the two
        readings must be honoured: the call is accepted, or it is refused with
        TypeError/ValueError and nothing has been modified."""
        import decimal
        import fractions

        ctx = self.ctx
        league = self.league
        n = len(names)
        kinds = [("complex", 2j), ("decimal", decimal.Decimal("2.5")), ("fraction", fractions.Fraction(5, 2)),
                 ("nan", float("nan")), ("inf", float("inf")), ("neg_inf", float("-inf")), ("decimal_nan", decimal.Decimal("NaN")),
                 # ... and objects that COMPARE AND HASH EQUAL to the int they stand in for,
                 # submitted right after the all-int vector was accepted (anything that remembers
                 # validated vectors by value cannot tell them apart)
                 ("decimal_equal_to_int", decimal.Decimal), ("fraction_equal_to_int", fractions.Fraction), ("complex_equal_to_int", complex)]
        for label, bad0 in kinds:
            for sel in ("ranks", "scores"):
                for pos in sorted({0, n - 1, n // 2}):
                    teams = [[mk_rating(league.model, p.mu, p.sigma, p.name) for p in t] for t in league.teams_of(names)]
                    vals = [k + 1 for k in range(n)]
                    bad = bad0
                    if isinstance(bad0, type):
                        twin = [[mk_rating(league.model, p.mu, p.sigma, p.name) for p in t] for t in league.teams_of(names)]
                        call_outcome(lambda: league.model.rate(twin, **{sel: list(vals)}))
                        bad = bad0(vals[pos])
                    vals[pos] = bad
                    objs = reachable_ratings(teams)
                    pre_r = rating_digest(objs)
                    pre_m = model_state(league.model)
                    st, val = call_outcome(lambda: league.model.rate(teams, **{sel: vals}))
                    ctx.evaluations += 1
                    ctx.count("ambiguous_element_probe")
                    if st == "ok":
                        continue
                    tag = "rate:%s:elem:%s" % (sel, label)
                    if not isinstance(val, (TypeError, ValueError)):
                        ctx.violation("C13/wrong_exception:%s:%s" % (tag, type(val).__name__), {"teams": names, "pos": pos, "message": str(val)[:200]})
                    if pre_r != rating_digest(objs):
                        ctx.violation("C13/side_effect:%s:rating" % tag, {"teams": names, "pos": pos, "exception": type(val).__name__})
                    d = diff_state(pre_m, model_state(league.model))
                    if d:
                        ctx.violation("C13/side_effect:%s:model.%s" % (tag, ",".join(d)), {"teams": names, "pos": pos})

    def subclassed_ratings(self, names):
        """An application's own player class derived from the model's rating class (extra
        fields, nothing overridden): its instances ARE that model's own rating objects, the
        pinned code rates them, and so must any tree that keeps the property (an exact-type
        test instead of isinstance refuses them)."""
        ctx = self.ctx
        league = self.league
        base_teams = league.teams_of(names)
        rating_cls = type(base_teams[0][0])
        try:
            player_cls = type("LeaguePlayer", (rating_cls,), {"__doc__": "application subclass", "country": "??"})
        except TypeError:
            return  # a rating class that cannot be subclassed at all: nothing to probe
        for call in ("rate", "win", "draw", "rank"):
            teams = []
            for t in base_teams:
                row = []
                for k, p in enumerate(t):
                    if (len(teams) + k) % 2 == 0:
                        q = player_cls.__new__(player_cls)
                        try:
                            player_cls.__init__(q, p.mu, p.sigma, p.name)
                        except Exception:
                            return  # constructor signature changed: not this probe's business
                        q.joined = 2019
                    else:
                        q = mk_rating(league.model, p.mu, p.sigma, p.name)
                    row.append(q)
                teams.append(row)
            st, val = call_outcome(lambda: faults.invoke(league.model, call, [teams], {}))
            ctx.evaluations += 1
            ctx.count("subclassed_rating_probe")
            if st != "ok" and isinstance(val, (TypeError, ValueError)):
                ctx.violation("C13/rejected_wellformed:%s:subclass_of_rating_class" % call, {"teams": names, "exception": type(val).__name__, "message": str(val)[:200]})

    def repeated_objects(self, names):
        """Games in which the SAME rating object (or the same team list) appears twice.  The
        property defines malformed teams as 'not a list of at least two non-empty lists of that
        model's own rating objects'; these games ARE such lists, so they are well-formed by its
        letter (the pinned code accepts them, and the repository's own predict tests seat one
        player in two teams): they must be accepted.  (Until round 15 the weaker either-way
        demand was made here - accepted, or cleanly refused; two independently written changes
        that refuse such games were thereby let through, and nothing in the property's text
        supports refusing them.)"""
        ctx = self.ctx
        league = self.league
        for variant in ("same_player_in_two_teams", "same_player_twice_in_team", "same_team_list_twice"):
            for call in ("rate", "win", "draw", "rank"):
                base = [[mk_rating(league.model, p.mu, p.sigma, p.name) for p in t] for t in league.teams_of(names)]
                if variant == "same_player_in_two_teams":
                    base[-1] = base[-1] + [base[0][0]]
                elif variant == "same_player_twice_in_team":
                    base[0] = base[0] + [base[0][0]]
                else:
                    base = base + [base[0]]
                objs = reachable_ratings(base)
                pre_r = rating_digest(objs)
                pre_m = model_state(league.model)
                st, val = call_outcome(lambda: faults.invoke(league.model, call, [base], {}))
                ctx.evaluations += 1
                ctx.count("repeated_object_probe")
                if st == "ok":
                    continue
                label = "%s:%s" % (call, variant)
                if isinstance(val, (TypeError, ValueError)):
                    ctx.violation("C13/rejected_wellformed:%s" % label, {"teams": names, "exception": type(val).__name__, "message": str(val)[:200]})
                if not isinstance(val, (TypeError, ValueError)):
                    ctx.violation("C13/wrong_exception:%s:%s" % (label, type(val).__name__), {"teams": names, "message": str(val)[:200]})
                if pre_r != rating_digest(objs):
                    ctx.violation("C13/side_effect:%s:rating" % label, {"teams": names, "exception": type(val).__name__})
                d = diff_state(pre_m, model_state(league.model))
                if d:
                    ctx.violation("C13/side_effect:%s:model.%s" % (label, ",".join(d)), {"teams": names, "exception": type(val).__name__})


# ====================================================================== C20 driver


def c20_params(rng):
    return {
        "length": rng.choice([10, 25, 60, 150, 600] if rng.random() < 0.1 else [10, 25, 60, 150]),
        "players": rng.choice([4, 6, 10, 16]),
        "population": rng.choice(["default", "mixed", "spread", "spread"]),
        "opt_rate": rng.choice([0.0, 0.2, 0.5]),
        "p_restart": rng.choice([0.1, 0.3, 0.6]),
        "p_crash": rng.choice([0.0, 0.05, 0.15]),
        "p_abort": rng.choice([0.0, 0.05, 0.15]),
        "p_fork": rng.choice([0.0, 0.0, 0.03]),
        "p_full": rng.choice([0.1, 0.5]),
        "maker": rng.choice(["random", "closest"]),
        "rule": rng.choice(["uniform", "skill", "tie"]),
        "bench": rng.random() < 0.6,
        "fixed_rosters": rng.random() < 0.5,
        "reseed_random": rng.random() < 0.5,
    }


BENCH_VALUES = [
    (0, 0), (0.0, 0.0), (-0.0, 0.0), (25, -1), (-25.0, -8.333), (1e300, 1e300), (-1e-300, 5e-324),
    (0, 1), (1, 0), (0.0, 8.333), (25.0, 0), (-3, 2), (7, 7.5), (1e9, 1e-9), (-1e9, 3), (0.0, -0.0), (-0.0, -0.0),
]


def random_finite(rng):
    """Any finite double (random bit pattern: all magnitudes incl. subnormals), or a decimal
    with 17 significant digits, or a large int."""
    import struct

    r = rng.random()
    if r < 0.5:
        while True:
            x = struct.unpack("<d", struct.pack("<Q", rng.getrandbits(64)))[0]
            if x == x and abs(x) != float("inf"):
                return x
    if r < 0.8:
        return float("%.17g" % (rng.uniform(-100, 100) * 10.0 ** rng.randint(-30, 30)))
    return rng.choice([-1, 1]) * rng.getrandbits(rng.randint(1, 80))  # ints, also beyond 2**53


class StoreDriver:
    """Twin leagues: A keeps its objects, B is restarted / crashed; only the store survives (C20)."""

    def __init__(self, ctx):
        self.ctx = ctx
        self.A = League(ctx.cfg)
        self.B = League(ctx.cfg)
        self.ids = []  # (object, path) of every rating built through rating()/create_rating()
        self.snapshots = {}  # name -> earlier deepcopy snapshots of that player (league B)
        self.pop_done = False
        self.pending = []
        self.n_gen = 0
        self.restored = set()  # names restored since their last game
        self.ever_restored = set()
        self.played = set()
        self.bench = []

    def gen(self):
        ctx = self.ctx
        p = ctx.params
        rng = ctx.rng("workload")
        if not self.pop_done:
            self.pop_done = True
            self.pending = gen_population(rng, ctx.cfg, p["players"], p["population"])
            if p["bench"]:
                for k in range(rng.randint(1, 5)):
                    if rng.random() < 0.4:
                        mu, sg = random_finite(rng), random_finite(rng)
                    else:
                        mu, sg = rng.choice(BENCH_VALUES)
                    self.pending.append({"op": "NEW", "name": "b%d" % k, "mu": enc(mu), "sigma": enc(sg), "bench": True})
            self.pending.append({"op": "NEW", "name": "d0"})
            self.pending.append({"op": "NEW", "name": "d1", "mu": enc(rng.choice([0, 0.0, -1.5])), "sigma_omitted": True})
            self.pending.append({"op": "NEW", "name": "d2", "sigma": enc(rng.choice([1, 2.5])), "mu_omitted": True})
        if self.pending:
            return self.pending.pop(0)
        if self.n_gen >= p["length"]:
            return None
        self.n_gen += 1
        names = sorted((n for n in self.A.players if not n.startswith("b")), key=lambda s: (s[0], int(s[1:])))
        allnames = sorted(self.A.players, key=lambda s: (s[0], int(s[1:])))
        frng = ctx.rng("faults")
        r = frng.random()
        if r < p["p_restart"]:
            if frng.random() < p["p_full"]:
                scope = list(allnames)
                full = True
            else:
                scope = frng.sample(allnames, frng.randint(1, max(1, len(allnames) // 2)))
                full = False
            one = frng.choice(["rating", "create_rating", "deepcopy", None, None])
            paths = [one or frng.choice(["rating", "create_rating", "deepcopy"]) for _ in scope]
            op = {"op": "RESTART", "scope": scope, "paths": paths, "full": full}
            if full and frng.random() < 0.6:
                op["new_process"] = True
            return op
        if r < p["p_restart"] + p["p_crash"]:
            inner = gen_rate_op(rng, ctx, self.A, names, p["opt_rate"], maker=p["maker"], rule=p["rule"])
            if inner:
                return {"op": "CRASH", "inner": inner, "at": int(1 + 500 * frng.random() ** 2), "path": frng.choice(["rating", "create_rating"])}
        r = frng.random()
        if r < p.get("p_abort", 0.0):
            inner = gen_rate_op(rng, ctx, self.A, names, p["opt_rate"], maker=p["maker"], rule=p["rule"])
            if inner:
                retry = True
                if frng.random() < 0.5:
                    # the request that timed out is dropped, not retried; its players play on
                    self.pending.extend(self.follow_ups(frng, inner))
                    retry = False
                return {"op": "ABORT", "inner": inner, "at": int(1 + 500 * frng.random() ** 2), "path": frng.choice(["rating", "create_rating"]), "retry": retry}
        if r > 0.985 and p.get("reseed_random"):
            return {"op": "RESEED_RANDOM"}
        if r < p.get("p_abort", 0.0) + p.get("p_fork", 0.0):
            return {"op": "FORK_RESTORE", "names": frng.sample(allnames, min(len(allnames), frng.randint(1, 4))), "paths": [frng.choice(["rating", "create_rating"]) for _ in range(4)], "new": frng.randint(0, 2)}
        r = rng.random()
        if r < 0.7:
            return gen_rate_op(rng, ctx, self.A, names, p["opt_rate"], maker=p["maker"], rule=p["rule"], rosters=self.fixed_rosters(rng, names))
        if r < 0.9:
            return gen_predict_op(rng, names, self.A, rosters=self.fixed_rosters(rng, names))
        if r < 0.94:
            return {"op": "DEEPCOPY_TEAMS", "teams": gen_match(rng, allnames, None, shape_max=(3, 3))}
        if r < 0.97:
            return {"op": "DEEPCOPY_HISTORY", "names": rng.sample(allnames, min(len(allnames), rng.randint(1, 3)))}
        if r < 0.985 and r >= 0.975:
            g = gen_rate_op(rng, ctx, self.A, names, 0.0, maker=p["maker"], rule=p["rule"], rosters=self.fixed_rosters(rng, names))
            if g:
                return {"op": "RATE2", "inner": g}
        if r < 0.992 and r >= 0.985:
            return {"op": "DECAY", "names": rng.sample(names, min(len(names), rng.randint(1, 3))), "factor": enc(rng.choice([1.05, 1.5, 0.9]))}
        if r >= 0.99:
            return {"op": "THREAD_BUILD", "threads": rng.choice([2, 3]), "each": rng.randint(1, 4), "path": rng.choice(["rating", "create_rating"]),
                    "scheduled": rng.random() < 0.6, "gran": "opcode" if rng.random() < 0.3 else "line"}
        if r < 0.971 and not self.mass_done:
            self.mass_done = True
            return {"op": "MASS_BUILD", "n": 66000, "path": rng.choice(["rating", "create_rating"])}
        return {"op": "NEW", "name": "p%d" % len([n for n in names if n.startswith("p")])}

    def run(self):
        ctx = self.ctx
        while True:
            op = ctx.next_op(self.gen)
            if op is None:
                break
            kind = op["op"]
            ctx.count("op:" + kind)
            getattr(self, "op_" + kind)(op)
        ctx.evaluations += 1
        check_ids(ctx, self.ids)

    _rosters = None
    mass_done = False

    def follow_ups(self, frng, inner):
        """The players of a call that was killed play again at once: the same game with the
        limit switched the other way and a tau large enough to move sigma upward, then once
        more with the limit as it was (whatever the killed call parked on the objects it was
        working on meets other options first, and its own options again afterwards)."""
        kw = self.ctx.cfg["kwargs"]
        lim = inner["limit_sigma"] if "limit_sigma" in inner else bool(kw["limit_sigma"])
        beta = dec(kw["beta"])
        out = []
        for flip in (True, False):
            f = {k: v for k, v in copy.deepcopy(inner).items() if k not in ("tau", "limit_sigma")}
            f["limit_sigma"] = (not lim) if flip else bool(lim)
            f["tau"] = enc(frng.choice([0.5, 1.0, 2.0]) * beta)
            f["follow_up"] = True
            out.append(f)
        self.ctx.count("follow_up_games_after_killed_call", 2)
        return out

    def fixed_rosters(self, rng, names):
        if not self.ctx.params.get("fixed_rosters"):
            return None
        if self._rosters is None:
            self._rosters = make_rosters(rng, names)
        return self._rosters

    def model2(self, L):
        """A second model object of the same class with another tau (a placement queue): it
        rates the league's own rating objects every now and then."""
        m2 = getattr(L, "_model2", None)
        if m2 is None or getattr(L, "_model2_lib", None) is not L.lib:
            tau = dec(self.ctx.cfg["kwargs"]["tau"]) * 2.0 + 0.02 * dec(self.ctx.cfg["kwargs"]["beta"])
            cfg2 = json.loads(json.dumps(self.ctx.cfg))
            # another ladder: other default mu and sigma too (1500 / 500 style)
            cfg2["kwargs"]["mu"] = enc(dec(self.ctx.cfg["kwargs"]["mu"]) * 1.5 + 3.0 * dec(self.ctx.cfg["kwargs"]["beta"]))
            cfg2["kwargs"]["sigma"] = enc(dec(self.ctx.cfg["kwargs"]["sigma"]) * 0.7)
            m2 = build_model(cfg2, tau=tau, limit_sigma=not self.ctx.cfg["kwargs"]["limit_sigma"], lib=L.lib)
            L._model2 = m2
            L._model2_lib = L.lib
        return m2

    def op_RATE2(self, op):
        """The same game in both twins, rated through each twin's SECOND model object."""
        ctx = self.ctx
        outs = []
        for L in (self.A, self.B):
            main = L.model
            L.model = self.model2(L)
            try:
                outs.append(exec_call(ctx, L, op["inner"]))
            finally:
                L.model = main
        self.compare("RATE2", outs[0]["out"], outs[1]["out"], op["inner"])
        ctx.fault("second_model_rates_league_objects")
        ctx.log("RATE2", outs[0]["out"])

    def op_DECAY(self, op):
        """The application changes ratings by plain attribute assignment (inactivity decay)
        and stores the result - in both twins, on whatever objects each holds."""
        ctx = self.ctx
        f = dec(op["factor"])
        for n in op["names"]:
            if n not in self.A.players or n.startswith("b"):
                continue
            for L in (self.A, self.B):
                p = L.players[n]
                try:
                    p.sigma = min(max(p.sigma * f, L.dom.sig_min), L.dom.sig_max) if p.sigma else p.sigma
                except AttributeError:
                    L.players[n] = L.factory.rating(p.mu, min(max(p.sigma * f, L.dom.sig_min), L.dom.sig_max), L.label(n))
                L.save(n)
        ctx.fault("decay_by_assignment")
        ctx.log("DECAY", op["names"])

    def op_THREAD_BUILD(self, op):
        """Players are registered from several threads (one after the other - no race is
        needed): every id must still be different from every other."""
        import threading

        ctx = self.ctx
        m = self.B.model
        built = []

        def work(k):
            for j in range(op["each"]):
                if op.get("path") == "create_rating":
                    built.append((k, type(m).create_rating([25.0 + j, 8.0], "w%d-%d" % (k, j))))
                else:
                    built.append((k, m.rating(name="w%d-%d" % (k, j))))

        if op.get("scheduled"):
            # the registrations really overlap: the workers run under the baton scheduler and are
            # pre-empted at every line (or instruction) of library code inside rating() /
            # create_rating() / the rating constructor
            n = op["threads"]
            errors = []

            def body_for(k):
                def body(sc, i):
                    for j in range(op["each"]):
                        sc.begin_call(i)
                        try:
                            if op.get("path") == "create_rating":
                                r = type(m).create_rating([25.0 + j, 8.0], "w%d-%d" % (k, j))
                            else:
                                r = m.rating(name="w%d-%d" % (k, j))
                            built.append((k, r))
                        except S.SimCrash:
                            raise
                        except Exception as e:
                            errors.append(type(e).__name__)
                        finally:
                            sc.end_call(i)

                return body

            if "schedule" in op:
                chooser = S.ReplayChooser(op["schedule"])
            else:
                srng = ctx.rng("schedule")
                strat, sp = S.gen_strategy(srng, n, 30 * op["each"] * n)
                chooser = S.GenChooser(srng, n, strat, sp, None)
            sc = S.Sched(n, chooser, gran=op.get("gran", "line"))
            sc.run([body_for(k) for k in range(n)])
            op["schedule"] = sc.decisions
            ctx.fault("preempt", sc.switches)
            ctx.count("threaded_phases")
            ctx.steps += sc.steps
            ctx.sigs.add(sc.signature())
            if errors:
                ctx.violation("C20/id_not_fresh:built_in_threads:raised_%s" % errors[0], {"errors": errors[:5]})
        else:
            for k in range(op["threads"]):
                t = threading.Thread(target=work, args=(k,))
                t.start()
                t.join()
        ctx.evaluations += 1
        ctx.fault("build_from_threads" + ("_overlapping" if op.get("scheduled") else ""))
        ids = [getattr(r, "id", None) for _, r in built]
        if len(set(ids)) != len(ids):
            ctx.violation("C20/id_not_fresh:built_in_threads", {"built": len(ids), "distinct_ids": len(set(ids))})
        for r, path in self.ids:
            if getattr(r, "id", None) in ids:
                ctx.violation("C20/id_not_fresh:built_in_threads", {"collides_with": path})
        for _, r in built:
            self.ids.append((r, "thread_build"))
        ctx.log("THREAD_BUILD", len(ids))

    def op_MASS_BUILD(self, op):
        """A big import: tens of thousands of ratings built in one go (more than 2**16); all
        ids must differ from each other and from every id seen in the run."""
        ctx = self.ctx
        m = self.B.model
        ids = set()
        n = op["n"]
        if op.get("path") == "create_rating":
            mk = type(m).create_rating
            for i in range(n):
                ids.add(mk([25.0, 8.0]).id)
        else:
            for i in range(n):
                ids.add(m.rating().id)
        ctx.evaluations += 1
        ctx.fault("mass_build")
        if len(ids) != n:
            ctx.violation("C20/id_not_fresh:mass_build", {"built": n, "distinct_ids": len(ids)})
        for r, path in self.ids:
            if getattr(r, "id", None) in ids:
                ctx.violation("C20/id_not_fresh:mass_build", {"collides_with": path})
        ctx.log("MASS_BUILD", n)

    def op_NEW(self, op):
        ctx = self.ctx
        for L in (self.A, self.B):
            try:
                r = exec_new(ctx, L, op)
            except Exception as e:
                ctx.violation("C20/restore_value:rating:raised_%s" % type(e).__name__, {"op": op, "message": str(e)[:200]})
            if "clone_of" in op and op["clone_of"] in L.players:
                continue  # a deep copy of a template (same id by design), not a built rating
            ctx.evaluations += 1
            m = L.model
            want_mu = dec(op["mu"]) if "mu" in op else dec(ctx.cfg["kwargs"]["mu"])
            want_sg = dec(op["sigma"]) if "sigma" in op else dec(ctx.cfg["kwargs"]["sigma"])
            if "mu" not in op:
                want_mu = float(want_mu)
            if "sigma" not in op:
                want_sg = float(want_sg)
            check_built(ctx, r, want_mu, want_sg, op.get("label", op["name"]), "rating" if ("mu" in op and "sigma" in op) else "rating_defaults", self.ids)
        if "mu" in op and dec(op["mu"]) == 0:
            ctx.probe("new_zero_mu")
        if "sigma" in op and dec(op["sigma"]) == 0:
            ctx.probe("new_zero_sigma")
        ctx.log("NEW", op["name"])

    def compare(self, what, a, b, op):
        self.ctx.evaluations += 1
        if not out_same(a, b):
            paths = sorted(set(self.last_paths.get(n, "orig") for n in flat(op["teams"])))
            self.ctx.violation("C20/twin_diverged:%s:%s" % (what, "+".join(paths)), {"op": op, "kept_objects": a, "restored_objects": b})

    last_paths = {}

    def op_RATE(self, op):
        ctx = self.ctx
        ra = exec_call(ctx, self.A, op)
        rb = exec_call(ctx, self.B, op)
        if not snap_same(ra["snap"], rb["snap"]):
            ctx.violation("C20/twin_diverged:state_before_call", {"op": op, "kept_objects": ra["snap"], "restored_objects": rb["snap"]})
        self.compare("RATE", ra["out"], rb["out"], op)
        names = set(flat(op["teams"]))
        hit = names & self.restored
        if hit and (names & self.played):
            ctx.nontrivial.add(h64([ctx.cfg["model"], ra["snap"], op.get("ranks"), op.get("scores"), op.get("tau"), op.get("limit_sigma"), sorted(self.last_paths.get(n, "") for n in hit)]))
            if names - self.ever_restored:
                ctx.probe("game_mixing_restored_and_original")
            ctx.probe("game_after_restore")
        self.restored -= names
        self.played |= names
        ctx.log("RATE", ra["out"])
        ctx.numdigest.add(ra["out"])

    def op_PREDICT(self, op):
        ctx = self.ctx
        ra = exec_call(ctx, self.A, op)
        rb = exec_call(ctx, self.B, op)
        self.compare("PREDICT_" + op["kind"], ra["out"], rb["out"], op)
        if set(flat(op["teams"])) & self.ever_restored:
            ctx.probe("predict_on_restored")
        ctx.log("PREDICT", ra["out"])

    def process_death(self, paths=None):
        """League B's process dies and a new one starts: a FRESH IMPORT of the library (module
        globals, class attributes, caches start from scratch), a new model object, every
        player rebuilt from the store.  League A is the process that never died: it keeps its
        import, its model object and its rating objects.  Whatever differs afterwards lived in
        something the restart dropped."""
        import core

        ctx = self.ctx
        B = self.B
        B.lib = core.fresh_models(instrument=True)
        if core.SimClock.current is not None and len(self.ids) % 2 == 0:
            core.SimClock.current.jump_back()  # the new process starts with the clock set back
            ctx.fault("clock_set_back")
        B.model = build_model(ctx.cfg, lib=B.lib)
        B.factory = B.model
        B.forget_rosters()
        ctx.fault("process_restart_fresh_import")
        names = sorted(B.players)
        for k, n in enumerate(names):
            path = (paths or {}).get(n) or ("rating", "create_rating")[k % 2]
            if path == "deepcopy":
                path = "rating"  # objects do not survive a process
            restore_player(ctx, B, n, path, self.ids, check=True)
            self.last_paths = dict(self.last_paths)
            self.last_paths[n] = "newproc+" + path
            self.restored.add(n)
            self.ever_restored.add(n)

    def op_RESEED_RANDOM(self, op):
        """Application code re-seeds the GLOBAL random module with the value it always uses
        (reproducible fixtures, simulations): nothing the library hands out may repeat."""
        import random as _random

        _random.seed(self.ctx.random_seed)
        self.ctx.fault("global_random_reseeded")
        self.ctx.log("RESEED_RANDOM")

    def op_RESTART(self, op):
        ctx = self.ctx
        if op.get("full") and op.get("new_process"):
            ctx.fault("restart_full")
            self.process_death(dict(zip(op["scope"], op["paths"])))
            for n in op["scope"]:
                if n in self.played:
                    ctx.probe("restart_between_games_of_player")
            ctx.log("RESTART", "new_process")
            return
        if op.get("full"):
            # an in-process re-initialisation: the model object is rebuilt from its
            # constructor kwargs - in BOTH twins, so that they differ only in their rating objects
            self.A.model = build_model(ctx.cfg)
            self.A.factory = self.A.model
            self.B.model = build_model(ctx.cfg, lib=self.B.lib)
            self.B.factory = self.B.model
            ctx.fault("restart_full")
        else:
            ctx.fault("restart_partial")
        for n, path in zip(op["scope"], op["paths"]):
            if n not in self.B.players:
                continue
            mu, sg = self.B.stored(n)
            restore_player(ctx, self.B, n, path, self.ids, check=True)
            ctx.evaluations += 1
            self.last_paths = dict(self.last_paths)
            self.last_paths[n] = path
            self.restored.add(n)
            self.ever_restored.add(n)
            if mu == 0 or sg == 0:
                ctx.probe("restore_zero_value")
            if mu < 0 or sg < 0:
                ctx.probe("restore_negative_value")
            if isinstance(mu, int) or isinstance(sg, int):
                ctx.probe("restore_int_value")
            if n in self.played:
                ctx.probe("restart_between_games_of_player")
        ctx.log("RESTART", op["scope"], op["paths"])

    def op_CRASH(self, op):
        """A rate call of league B is killed in flight; B restores from the store and retries."""
        ctx = self.ctx
        inner = op["inner"]
        names = inner["teams"]
        self.B.ensure(flat(names))
        self.A.ensure(flat(names))
        tau_eff = dec(inner["tau"]) if "tau" in inner else dec(ctx.cfg["kwargs"]["tau"])
        lim_eff = inner["limit_sigma"] if "limit_sigma" in inner else bool(ctx.cfg["kwargs"]["limit_sigma"])
        self.B.reseed_out_of_domain(names, tau_zero=(tau_eff * tau_eff == 0), limit=bool(lim_eff))
        teams = self.B.teams_of(names)
        kw = rate_kwargs(inner)
        lc = S.LineCounter(crash_at=op["at"])
        st, val = lc.run(lambda: self.B.model.rate(teams, **kw))
        if st == "crash":
            ctx.fault("crash_line")
            before_first = all(enc(p.mu) == enc(self.B.stored(n)[0]) and enc(p.sigma) == enc(self.B.stored(n)[1]) for n, p in zip(flat(names), [p for t in teams for p in t]))
            ctx.probe("crash_before_first_mutation" if before_first else "crash_after_mutation")
            ctx.log("CRASH", list(lc.fired_loc))
            # the process died with the call: league B comes back as a new process (fresh
            # import, fresh model, every player rebuilt from the store); league A never crashed
            self.process_death({n: op.get("path", "rating") for n in flat(names)})
        else:
            # the call completed before the crash point: B's objects now hold the posterior
            # but nothing was committed; restore from the store all the same
            for n in flat(names):
                restore_player(ctx, self.B, n, "rating", self.ids, check=True)
            ctx.count("crash_missed")
        self.op_RATE(inner)

    def op_DEEPCOPY_TEAMS(self, op):
        ctx = self.ctx
        if not op.get("teams"):
            return
        names = op["teams"]
        self.B.ensure(flat(names))
        self.A.ensure(flat(names))
        teams = self.B.teams_of(names)
        flatp = [p for t in teams for p in t]
        if len(flatp) >= 2 and len(self.ids) % 3 == 0:
            # the application hangs its own fields on rating objects, also ones that point at
            # each other; copying must keep working (what happens to those fields is its
            # business, mu / sigma / name / id are the library's)
            try:
                flatp[0].note = ["free text"]
                flatp[0].rival = flatp[1]
                flatp[1].rival = flatp[0]
                ctx.fault("application_attributes_on_ratings")
            except AttributeError:
                pass
        try:
            cp = copy.deepcopy(teams)
        except Exception as e:
            ctx.violation("C20/deepcopy:raised_%s" % type(e).__name__, {"teams": names, "message": str(e)[:200]})
        ctx.evaluations += 1
        if cp is teams or not isinstance(cp, list) or len(cp) != len(teams):
            ctx.violation("C20/deepcopy:nested_outer", {"teams": names})
        for t, c in zip(teams, cp):
            if c is t or not isinstance(c, list) or len(c) != len(t):
                ctx.violation("C20/deepcopy:nested_inner", {"teams": names})
            for p, q in zip(t, c):
                if p is q:
                    ctx.violation("C20/deepcopy:identity", {"teams": names})
                for f in ("mu", "sigma", "name", "id"):
                    b, a = getattr(q, f, "<missing>"), getattr(p, f, None)
                    if not same_value(a, b):
                        ctx.violation("C20/deepcopy:%s" % f, {"orig": repr(a), "copy": repr(b)})
        ctx.probe("deepcopy_nested")
        # continue league B on the copies (snapshot path for a whole match)
        for t, c in zip(names, cp):
            for n, q in zip(t, c):
                self.B.players[n] = q
                self.B.forget_rosters([n])
                self.last_paths = dict(self.last_paths)
                self.last_paths[n] = "deepcopy_nested"
                self.restored.add(n)
                self.ever_restored.add(n)
        ctx.log("DEEPCOPY_TEAMS", names)


def _op_ABORT(self, op):
    """A rate call is killed in flight in BOTH twins and the process survives (the service
    caught a timeout / KeyboardInterrupt): both keep their model object.  League A repairs the
    torn objects in place - the stored mu and sigma are assigned back onto the SAME objects
    (same identity, same id) - league B rebuilds the players from the store.  Nothing that
    matters may live anywhere but in (mu, sigma): the twins must agree from here on."""
    ctx = self.ctx
    inner = op["inner"]
    names = inner["teams"]
    tau_eff = dec(inner["tau"]) if "tau" in inner else dec(ctx.cfg["kwargs"]["tau"])
    kw = rate_kwargs(inner)
    fired = []
    for L in (self.A, self.B):
        L.ensure(flat(names))
        L.reseed_out_of_domain(names, tau_zero=(tau_eff * tau_eff == 0), limit=bool(inner["limit_sigma"] if "limit_sigma" in inner else ctx.cfg["kwargs"]["limit_sigma"]))
        teams = L.teams_of(names)
        lc = S.LineCounter(crash_at=op["at"])
        st, val = lc.run(lambda: L.model.rate(teams, **dict(kw)))
        fired.append(st)
    # the two calls need not die at the same place (a transparent cache warmed by the first
    # makes the second shorter): whatever each twin's objects hold now is discarded anyway
    if "crash" in fired:
        ctx.fault("abort_line_both_twins" if fired[0] == fired[1] else "abort_line_one_twin")
    else:
        ctx.count("crash_missed")
    for n in flat(names):
        mu, sg = self.A.stored(n)
        p = self.A.players[n]
        try:
            p.mu = mu
            p.sigma = sg
        except AttributeError:
            # ratings without assignable mu / sigma cannot be repaired in place: rebuild A too
            self.A.players[n] = self.A.model.rating(mu, sg, self.A.label(n))
            ctx.count("abort_repair_in_place_impossible")
        restore_player(ctx, self.B, n, op.get("path", "rating"), self.ids, check=True)
        self.last_paths = dict(self.last_paths)
        self.last_paths[n] = "abort+" + op.get("path", "rating")
        self.restored.add(n)
        self.ever_restored.add(n)
    ctx.probe("abort_then_repair_in_place_vs_rebuild")
    ctx.log("ABORT", fired)
    if op.get("retry", True):
        self.op_RATE(inner)
    else:
        ctx.count("killed_call_not_retried")


def _op_FORK_RESTORE(self, op):
    """Pre-fork deployment: the process forks; the child restores some players from the store
    (and lets a few new ones join) while the parent does the same.  Every rating built in
    either process must carry an id of its own.  The simulated kernel gives the child its own
    entropy stream, as a real kernel does; everything else the child inherits."""
    import os as _os

    from core import Entropy

    ctx = self.ctx
    names = [n for n in op["names"] if n in self.B.players]
    r, w = _os.pipe()
    pid = _os.fork()
    if pid == 0:
        code = 0
        try:
            _os.close(r)
            if Entropy.current is not None:
                Entropy.current.in_child(ctx.i)
            ids = []
            for k, n in enumerate(names):
                mu, sg = self.B.stored(n)
                if op["paths"][k % len(op["paths"])] == "create_rating":
                    obj = type(self.B.model).create_rating([mu, sg], self.B.label(n))
                else:
                    obj = self.B.model.rating(mu, sg, self.B.label(n))
                ids.append(obj.id)
            for k in range(op.get("new", 0)):
                ids.append(self.B.model.rating(name="forked%d" % k).id)
            _os.write(w, json.dumps(ids).encode())
        except BaseException:
            code = 3
        finally:
            _os._exit(code)
    _os.close(w)
    mine = []
    for k, n in enumerate(names):
        before = len(self.ids)
        restore_player(ctx, self.B, n, op["paths"][k % len(op["paths"])], self.ids, check=True)
        self.last_paths = dict(self.last_paths)
        self.last_paths[n] = "fork+" + op["paths"][k % len(op["paths"])]
        self.restored.add(n)
        self.ever_restored.add(n)
        mine.append(self.B.players[n].id)
    for k in range(op.get("new", 0)):
        mine.append(self.B.model.rating(name="parent%d" % k).id)
    data = b""
    while True:
        chunk = _os.read(r, 65536)
        if not chunk:
            break
        data += chunk
    _os.close(r)
    _, status = _os.waitpid(pid, 0)
    if status != 0 or not data:
        raise HarnessError("forked child failed (status %r)" % (status,))
    theirs = json.loads(data.decode())
    ctx.evaluations += 1
    ctx.fault("fork")
    clash = sorted(set(mine) & set(theirs))
    if clash or len(set(theirs)) != len(theirs) or not all(isinstance(x, str) and x for x in theirs):
        ctx.violation("C20/id_not_fresh:after_fork", {"parent_ids": len(mine), "child_ids": len(theirs), "shared": len(clash)})
    ctx.log("FORK_RESTORE", names)


StoreDriver.op_ABORT = _op_ABORT
StoreDriver.op_FORK_RESTORE = _op_FORK_RESTORE


def _op_DEEPCOPY_HISTORY(self, op):
    """Snapshot path with history: earlier deep-copy snapshots of a player (same id, older
    values) and the live object together in one nested structure; every element must come
    back as a distinct object holding ITS OWN mu, sigma, name and id."""
    ctx = self.ctx
    struct = []
    for n in op["names"]:
        if n not in self.B.players:
            continue
        live = self.B.players[n]
        hist = self.snapshots.setdefault(n, [])
        # the containers vary: list / tuple / dict values for the history, list / tuple for live
        k = len(struct) % 3
        h = list(hist) if k == 0 else tuple(hist) if k == 1 else {i: x for i, x in enumerate(hist)}
        struct.append({"history": h, "live": [live] if k != 1 else (live,), "again": (live,) if k == 0 else [live] if k == 1 else {"x": live}})
        hist.append(copy.deepcopy(live))
        del hist[:-3]
    if not struct:
        return
    cp = copy.deepcopy(struct)
    ctx.evaluations += 1
    seen = set()

    def items(c):
        return list(c.values()) if isinstance(c, dict) else list(c)

    for a, b in zip(struct, cp):
        # the live object is reachable a second time through another container: that copy
        # must hold the same fields (whether it is the same object as the first copy is not
        # something the property speaks about)
        for p, q in zip(items(a["again"]), items(b["again"])):
            if p is q:
                ctx.violation("C20/deepcopy:identity", {"names": op["names"], "where": "again"})
            for f in ("mu", "sigma", "name", "id"):
                y, x = getattr(q, f, "<missing>"), getattr(p, f, None)
                if not same_value(x, y):
                    ctx.violation("C20/deepcopy:%s" % f, {"orig": repr(x), "copy": repr(y), "where": "again"})
        for key in ("history", "live"):
            if (b[key] is a[key] and len(a[key]) > 0 and not isinstance(a[key], tuple)) or type(b[key]) is not type(a[key]) or len(b[key]) != len(a[key]):
                ctx.violation("C20/deepcopy:nested_inner", {"names": op["names"]})
            for p, q in zip(items(a[key]), items(b[key])):
                if p is q or id(q) in seen:
                    ctx.violation("C20/deepcopy:identity", {"names": op["names"], "where": key})
                seen.add(id(q))
                for f in ("mu", "sigma", "name", "id"):
                    y, x = getattr(q, f, "<missing>"), getattr(p, f, None)
                    if not same_value(x, y):
                        ctx.violation("C20/deepcopy:%s" % f, {"orig": repr(x), "copy": repr(y), "where": key, "same_id_objects_in_structure": len(a["history"]) + 1})
        if a["history"]:
            ctx.probe("deepcopy_history_same_id_different_values")
    ctx.log("DEEPCOPY_HISTORY", op["names"])


StoreDriver.op_DEEPCOPY_HISTORY = _op_DEEPCOPY_HISTORY


DRIVERS = {
    "C06": (c06_driver, c06_params_all),
    "C13": (c13_driver, c13_params_all),
    "C14": (CallsDriver, lambda rng: calls_params(rng, "C14")),
    "C15": (CallsDriver, lambda rng: calls_params(rng, "C15")),
    "C20": (StoreDriver, c20_params),
}
