"""The malformed-call grammar (DESIGN 6.1) and must-accept twins.

Only arguments that property C13 itself calls malformed are generated.  A descriptor is a
small JSON-able dict; `build_call` turns it into concrete arguments against a live game.
"""
import sys

from core import MODEL_NAMES, model_class

PLAYER_KINDS = ["int", "float", "bool", "None", "str", "tuple", "list", "dict", "object", "duck", "teamrating",
                "class", "model", "function", "exception", "generator", "bytes", "frozenset_of_ratings", "range", "module", "nested_team",
                "namespace", "bytearray", "memoryview", "record"]
TEAM_KINDS = ["tuple", "None", "int", "str", "dict", "bare_rating", "empty", "userlist", "chainmap", "bytearray",
              "deque", "namedtuple", "dict_values", "map", "str1", "bytes", "generator", "set"]
TEAMS_KINDS = ["tuple", "dict", "frozenset", "str", "int", "None", "generator", "len0", "len1", "userlist", "deque", "dict_values", "map"]
SEL_NONLIST = ["int", "float", "str", "tuple", "dict", "set", "bytes", "range", "True", "array", "deque", "generator", "map", "dict_values",
               "bytearray", "memoryview", "userlist"]
SEL_ELEM = ["str", "None", "list", "tuple", "dict", "object", "bytes", "class", "record", "eqtwin"]
CALLS = ["rate", "win", "draw", "rank"]


class Duck:
    """Quacks like a rating (mu / sigma / ordinal) but is not one."""

    def __init__(self, mu, sigma):
        self.mu = mu
        self.sigma = sigma
        self.id = "duck"
        self.name = None

    def ordinal(self, z=3.0):
        return self.mu - z * self.sigma


class EqTwin:
    """Not a number, but compares and hashes equal to one (round 17, C13-59: a validation loop
    over set(ranks) never looks at an element that equals an earlier, valid one).  Placed in a
    selector list next to the genuine number it equals, i.e. as one half of a tie."""

    def __init__(self, v):
        self.v = v

    def __eq__(self, o):
        return o == self.v

    def __hash__(self):
        return hash(self.v)

    def __repr__(self):
        return "EqTwin(%r)" % (self.v,)


class Record:
    """An application's own player record with the classic dict-backed __getattr__: fine to
    look at (type, repr, isinstance), but copy / pickle / a probe for a missing attribute
    recurse or raise KeyError.  Not a rating: the only right answer is TypeError/ValueError."""

    def __init__(self, **kw):
        self.data = kw

    def __getattr__(self, k):
        return self.data[k]


def grammar(sizes, model_name, calls=CALLS, positions="all", rng=None):
    """Every fault kind at every position for a game of the given team sizes."""
    n = len(sizes)
    out = []
    foreign = ["foreign:" + m for m in MODEL_NAMES if m != model_name]
    for call in calls:
        for k in TEAMS_KINDS:
            out.append({"call": call, "arg": "teams", "kind": k})
        for m in MODEL_NAMES:
            if m != model_name:
                # a well-formed game of ANOTHER model, in the very list object that model has
                # just accepted
                out.append({"call": call, "arg": "teams", "kind": "accepted_by:" + m})
        for i in range(n):
            for k in TEAM_KINDS:
                out.append({"call": call, "arg": "team", "kind": k, "pos": [i]})
            slots = list(range(sizes[i] + 1))  # last = appended extra player
            for j in slots:
                for k in PLAYER_KINDS + foreign:
                    out.append({"call": call, "arg": "player", "kind": k, "pos": [i, j]})
        if call == "rate":
            for sel in ("ranks", "scores"):
                # the other selector: omitted / explicitly empty (= not given) / a valid list
                # (= both given: malformed in its own right)
                for other in (None, "empty", "valid"):
                    extra = {"other": other} if other else {}
                    for k in SEL_NONLIST:
                        out.append(dict({"call": call, "arg": sel, "kind": "nonlist:" + k}, **extra))
                    lens = sorted(set([l for l in range(1, n)] + [n + 1, 2 * n]))
                    for l in lens:
                        out.append(dict({"call": call, "arg": sel, "kind": "len", "len": l}, **extra))
                    for i in range(n):
                        for k in SEL_ELEM:
                            out.append(dict({"call": call, "arg": sel, "kind": "elem:" + k, "pos": [i]}, **extra))
            out.append({"call": call, "arg": "both", "kind": "both"})
            out.append({"call": call, "arg": "both", "kind": "both_float"})
    if positions != "all" and rng is not None:
        out = rng.sample(out, min(len(out), positions))
    if rng is not None:
        # (a) the same faults written in place into list objects an earlier call accepted
        tp = [d for d in out if d["arg"] in ("team", "player")]
        for d in rng.sample(tp, min(len(tp), max(20, len(tp) // 6))):
            out.append(dict(d, inplace=True))
        # (b) two faults at once: a team/player fault plus a selector fault
        sel = [d for d in out if d["arg"] in ("ranks", "scores") and d["call"] == "rate"]
        tpr = [d for d in tp if d["call"] == "rate"]
        if sel and tpr:
            for _ in range(40):
                out.append(dict(rng.choice(tpr), **{"and": rng.choice(sel)}))
        # (c) both selectors malformed, each in its own way
        rk = [d for d in sel if d["arg"] == "ranks" and not d.get("other")]
        sc = [d for d in sel if d["arg"] == "scores" and not d.get("other")]
        if rk and sc:
            for _ in range(24):
                out.append(dict(rng.choice(rk), **{"and": rng.choice(sc)}))
    return out


def _team_rating_obj(model_name, team):
    mod = sys.modules[model_class(model_name).__module__]
    cls = getattr(mod, model_name + "TeamRating")
    return cls(25.0, 69.0, team, 0)


def _player_value(kind, model_name, like, team):
    mu, sigma = like.mu, like.sigma
    if kind == "int":
        return 25
    if kind == "float":
        return 25.0
    if kind == "bool":
        return True
    if kind == "None":
        return None
    if kind == "str":
        return "player"
    if kind == "tuple":
        return (mu, sigma)
    if kind == "list":
        return [mu, sigma]
    if kind == "dict":
        return {"mu": mu, "sigma": sigma}
    if kind == "object":
        return object()
    if kind == "duck":
        return Duck(mu, sigma)
    if kind == "teamrating":
        return _team_rating_obj(model_name, list(team))
    if kind.startswith("foreign:"):
        other = model_class(kind.split(":", 1)[1])()
        return other.rating(mu=mu, sigma=sigma, name="foreign")
    if kind == "class":
        return type(like)
    if kind == "model":
        return model_class(model_name)()
    if kind == "function":
        return _player_value
    if kind == "exception":
        return TypeError("not a rating")
    if kind == "generator":
        return (p for p in team)
    if kind == "bytes":
        return b"rating"
    if kind == "frozenset_of_ratings":
        return frozenset(team)
    if kind == "range":
        return range(2)
    if kind == "module":
        return sys
    if kind == "nested_team":
        return list(team)
    if kind == "namespace":
        return __import__("types").SimpleNamespace(mu=mu, sigma=sigma, id="ns", name=None)
    if kind == "bytearray":
        return bytearray(b"rating")
    if kind == "memoryview":
        return memoryview(b"rating")
    if kind == "record":
        return Record(mu=mu, sigma=sigma, id="rec", name="rec")
    raise ValueError(kind)


def _sel_nonlist(kind, n):
    valid = list(range(1, n + 1))
    return {
        "int": 3,
        "float": 1.5,
        "str": "".join(str(v % 10) for v in valid),
        "tuple": tuple(valid),
        "dict": {i: v for i, v in enumerate(valid)},
        "set": set(valid),
        "bytes": bytes(valid),
        "range": range(1, n + 1),
        "True": True,
        "array": __import__("array").array("d", valid),
        "deque": __import__("collections").deque(valid),
        "generator": (v for v in valid),
        "map": map(float, valid),
        "dict_values": {i: v for i, v in enumerate(valid)}.values(),
        "bytearray": bytearray(valid),
        "memoryview": memoryview(bytes(valid)),
        "userlist": __import__("collections").UserList(valid),
    }[kind]


def _sel_elem(kind):
    return {"str": "1", "None": None, "list": [1], "tuple": (1,), "dict": {1: 1}, "object": object(), "bytes": b"1", "class": float,
            "record": Record(value=1), "eqtwin": EqTwin(1)}[kind]


def undo_inplace(teams, saved):
    outer, inner = saved
    teams[:] = outer
    for lst, sv in zip(outer, inner):
        lst[:] = sv


def build_call(desc, model_name, teams):
    """teams: list of lists of LIVE rating objects. -> (call name, args list, kwargs dict).
    The outer/inner lists are fresh; the rating objects are the live ones.  With
    desc['inplace'] the fault is written INTO the list objects passed (which an earlier,
    accepted call has already seen); the caller restores them with undo_inplace()."""
    n = len(teams)
    if desc.get("inplace") and desc["arg"] in ("team", "player"):
        t = teams
    else:
        t = [list(x) for x in teams]
    kw = {}
    if desc.get("and"):
        # a second, selector fault on top (two faults at once)
        _, _, kw = build_call(desc["and"], model_name, [list(x) for x in teams])
    arg, kind = desc["arg"], desc["kind"]
    if arg == "teams":
        if kind == "tuple":
            t = tuple(t)
        elif kind == "dict":
            t = {i: x for i, x in enumerate(t)}
        elif kind == "frozenset":
            t = frozenset(p for x in t for p in x)
        elif kind == "str":
            t = "teams"
        elif kind == "int":
            t = n
        elif kind == "None":
            t = None
        elif kind == "generator":
            t = (x for x in t)
        elif kind == "deque":
            t = __import__("collections").deque(t)
        elif kind == "userlist":
            t = __import__("collections").UserList(t)
        elif kind == "dict_values":
            t = {i: x for i, x in enumerate(t)}.values()
        elif kind == "map":
            t = map(list, t)
        elif kind == "len0":
            t = []
        elif kind == "len1":
            t = [t[0]]
        elif kind.startswith("accepted_by:"):
            other = model_class(kind.split(":", 1)[1])()
            t = [[other.rating(mu=p.mu, sigma=p.sigma, name="foreign") for p in x] for x in teams]
            try:  # set-up only: whether that model accepts them is judged elsewhere (twins)
                other.predict_win(t)
                other.predict_draw(t)
            except Exception:
                pass
        else:
            raise ValueError(kind)
    elif arg == "team":
        i = desc["pos"][0]
        if kind == "tuple":
            t[i] = tuple(t[i])
        elif kind == "None":
            t[i] = None
        elif kind == "int":
            t[i] = 1
        elif kind == "str":
            t[i] = "team"
        elif kind == "dict":
            t[i] = {j: p for j, p in enumerate(t[i])}
        elif kind == "bare_rating":
            t[i] = t[i][0]
        elif kind == "empty":
            t[i] = []
        elif kind == "deque":
            t[i] = __import__("collections").deque(t[i])
        elif kind == "userlist":
            t[i] = __import__("collections").UserList(t[i])
        elif kind == "chainmap":
            t[i] = __import__("collections").ChainMap({j: p for j, p in enumerate(t[i])})
        elif kind == "bytearray":
            t[i] = bytearray(b"\x01\x02")
        elif kind == "namedtuple":
            t[i] = __import__("collections").namedtuple("Team", ["p%d" % j for j in range(len(t[i]))])(*t[i])
        elif kind == "dict_values":
            t[i] = {j: p for j, p in enumerate(t[i])}.values()
        elif kind == "map":
            t[i] = map(lambda p: p, list(t[i]))
        elif kind == "str1":
            t[i] = "x"
        elif kind == "bytes":
            t[i] = b"\x01"
        elif kind == "generator":
            t[i] = (p for p in list(t[i]))
        elif kind == "set":
            t[i] = set(t[i])
        else:
            raise ValueError(kind)
    elif arg == "player":
        i, j = desc["pos"]
        like = teams[i][min(j, len(teams[i]) - 1)]
        val = _player_value(kind, model_name, like, teams[i])
        if j >= len(t[i]):
            t[i].append(val)
        else:
            t[i][j] = val
    elif arg in ("ranks", "scores"):
        if kind.startswith("nonlist:"):
            kw[arg] = _sel_nonlist(kind.split(":", 1)[1], n)
        elif kind == "len":
            kw[arg] = [k + 1 for k in range(desc["len"])]
        elif kind.startswith("elem:"):
            v = [k + 1 for k in range(n)]
            if kind == "elem:eqtwin":
                # ties with its neighbour: the genuine number comes first wherever it can
                i = desc["pos"][0]
                v[i] = EqTwin(v[i - 1] if i > 0 else v[1])
            else:
                v[desc["pos"][0]] = _sel_elem(kind.split(":", 1)[1])
            kw[arg] = v
        else:
            raise ValueError(kind)
        other = "scores" if arg == "ranks" else "ranks"
        if desc.get("other") == "empty":
            kw[other] = []
        elif desc.get("other") == "valid":
            kw[other] = [k + 1 for k in range(n)]
    elif arg == "both":
        if kind == "both":
            kw["ranks"] = [k + 1 for k in range(n)]
            kw["scores"] = [n - k for k in range(n)]
        else:
            kw["ranks"] = [float(k + 1) for k in range(n)]
            kw["scores"] = [0.5 * (n - k) for k in range(n)]
    else:
        raise ValueError(arg)
    return desc["call"], [t], kw


def invoke(model, call, args, kw):
    """The call as a client would write it.  One call in three names its first argument
    (`rate(teams=...)`, `predict_win(teams=...)` - the spelling the repository's own tests
    use); which ones is a function of the call's shape, so that a replay makes the same
    choice."""
    style = (len(kw) + len(type(args[0]).__name__) + len(call)) % 3 if len(args) == 1 else -1
    if style == 0:
        kw = dict(kw, teams=args[0])
        args = ()
    elif style == 1 and call == "rate" and ("ranks" in kw or "scores" in kw):
        # ... and one in three passes the outcome positionally: rate(teams, ranks) /
        # rate(teams, None, scores) - the order the signature documents (tau and limit_sigma
        # are always named)
        kw = dict(kw)
        args = (args[0], kw.pop("ranks", None)) + ((kw.pop("scores"),) if "scores" in kw else ())
    if call == "rate":
        return model.rate(*args, **kw)
    if call == "win":
        return model.predict_win(*args, **({"teams": kw["teams"]} if not args else {}))
    if call == "draw":
        return model.predict_draw(*args, **({"teams": kw["teams"]} if not args else {}))
    if call == "rank":
        return model.predict_rank(*args, **({"teams": kw["teams"]} if not args else {}))
    raise ValueError(call)


def fault_label(desc):
    s = "%s:%s:%s%s" % (desc["call"], desc["arg"], desc["kind"], ("+other_" + desc["other"]) if desc.get("other") else "")
    if desc.get("inplace"):
        s += "+inplace"
    if desc.get("and"):
        s += "&" + fault_label(desc["and"])
    return s


# ------------------------------------------------------------------ must-accept twins


class Points(int):
    """An application's own number types: subclasses of int and float are numbers."""


class Seconds(float):
    pass


import enum as _enum

Place = _enum.IntEnum("Place", {"P%d" % i: i for i in range(1, 14)})


def wellformed_twins(n):
    """Well-formed rank/score encodings for an n-team game: list of (label, kwargs)."""
    idx = list(range(n))
    tw = [
        # per-call options are part of a well-formed call too (0 and ints included)
        ("tau_int_zero", {"tau": 0}),
        ("tau_float_zero_with_ranks", {"tau": 0.0, "ranks": [i + 1 for i in idx]}),
        ("tau_int_with_scores", {"tau": 2, "scores": [n - i for i in idx]}),
        ("limit_sigma_true", {"limit_sigma": True}),
        ("limit_sigma_false_tau_float", {"limit_sigma": False, "tau": 0.25}),
        ("scores_int_subclass", {"scores": [Points(10 * (n - i)) for i in idx]}),
        ("ranks_float_subclass_mixed", {"ranks": [Seconds(60.5 + i) if i % 2 == 0 else 70.5 + i for i in idx]}),
        ("ranks_intenum", {"ranks": [Place(1 + i % 13) for i in idx]}),
        ("omitted", {}),
        ("ranks_none", {"ranks": None}),
        ("ranks_empty", {"ranks": []}),
        ("scores_empty", {"scores": []}),
        ("ranks_int", {"ranks": [i + 1 for i in idx]}),
        ("ranks_float", {"ranks": [i + 0.5 for i in idx]}),
        ("ranks_bool", {"ranks": [bool(i % 2) for i in idx]}),
        ("ranks_zeros", {"ranks": [0 for _ in idx]}),
        ("ranks_fzeros", {"ranks": [0.0 for _ in idx]}),
        ("ranks_neg", {"ranks": [-(i + 1) for i in idx]}),
        ("ranks_mixed", {"ranks": [(i if i % 2 else float(i)) for i in idx]}),
        ("ranks_big", {"ranks": [10 ** 12 + i for i in idx]}),
        ("ranks_repeat_unsorted", {"ranks": [(n - i) // 2 for i in idx]}),
        ("scores_int", {"scores": [10 * (n - i) for i in idx]}),
        ("scores_float", {"scores": [1.25 * i for i in idx]}),
        ("scores_bool", {"scores": [bool((i + 1) % 2) for i in idx]}),
        ("scores_zeros", {"scores": [0 for _ in idx]}),
        ("scores_neg", {"scores": [-3 * i - 1 for i in idx]}),
        ("scores_mixed", {"scores": [(float(i) if i % 2 else i) for i in idx]}),
        ("scores_repeat", {"scores": [i // 2 for i in idx]}),
        ("ranks_2pow1024", {"ranks": [2 ** 1024 + i for i in idx]}),
        ("scores_10pow400_mixed", {"scores": [[10 ** 400, 3, 7.5][i % 3] + (i // 3) for i in idx]}),
        ("ranks_negative_huge_int", {"ranks": [-(10 ** 320) * (i + 1) for i in idx]}),
        ("ranks_bool_and_float", {"ranks": [[True, 0.5, False, 2.5][i % 4] for i in idx]}),
        ("ranks_integral_floats_above_2pow53", {"ranks": [float(2 ** 53 + 2 * i) for i in idx]}),
        ("scores_integral_floats_negative_big", {"scores": [-float(2 ** 60) * (i + 1) for i in idx]}),
        ("ranks_1e308", {"ranks": [1e308 - i * 1e292 for i in idx]}),
        ("ranks_17_digits", {"ranks": [0.12345678901234567 + i * 1.0000000000000002 for i in idx]}),
        ("ranks_true_and_one", {"ranks": [[True, 1, 2][i % 3] for i in idx]}),
        ("scores_sum_to_zero", {"scores": [i - (n - 1) / 2 for i in idx]}),
        ("scores_strictly_decreasing_floats", {"scores": [100.5 - 0.25 * i for i in idx]}),
        ("ranks_int_float_equal", {"ranks": [[1, 1.0][i % 2] + i // 2 for i in idx]}),
        ("ranks_signed_zeros", {"ranks": [[-0.0, 0.0, 0][i % 3] for i in idx]}),
        ("ranks_2pow63", {"ranks": [2 ** 63 + i for i in idx]}),
        ("ranks_all_equal_negative", {"ranks": [-5 for _ in idx]}),
        ("ranks_true_false_ints", {"ranks": [[True, 2, False, 3][i % 4] for i in idx]}),
        ("scores_bools_and_ints", {"scores": [[True, 0, 5, False][i % 4] for i in idx]}),
        ("scores_fractional_negative", {"scores": [-0.5 * i for i in idx]}),
        # an empty selector is "not given" by the property's own definition ("given (non-empty)")
        ("ranks_with_empty_scores", {"ranks": [i + 1 for i in idx], "scores": []}),
        ("scores_with_empty_ranks", {"scores": [i + 1 for i in idx], "ranks": []}),
        ("ranks_bool_zero_neg_with_empty_scores", {"ranks": [[True, -1.5, 0][i % 3] for i in idx], "scores": []}),
    ]
    return tw
