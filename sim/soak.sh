#!/bin/bash
# Soak: every claimed check at quick tier under a range of VERIF_SEED values; evidence and replays go
# to a scratch directory.  Usage: sim/soak.sh <first seed> <last seed> [tier]
# Prints one line per run; exit 1 if any run did not exit 0.
cd "$(dirname "$0")/.."
OUT=$(mktemp -d /tmp/soak-XXXXXX)
bad=0
for s in $(seq $1 $2); do
  for p in C06 C13 C14 C15 C20; do
    LEAGUESIM_OUT=$OUT /venv/bin/python sim/check.py $p --tier ${3:-quick} --seed $s > $OUT/log 2>&1
    rc=$?
    echo "seed=$s $p exit=$rc $(grep -c VIOLATION $OUT/log) violations; $(head -1 $OUT/log | cut -c1-110)"
    if [ $rc -ne 0 ]; then bad=1; grep "VIOLATION\|HARNESS" $OUT/log | head -5; mkdir -p /verif/replays/soak; cp -r $OUT/replays/* /verif/replays/soak/ 2>/dev/null; fi
  done
done
rm -rf $OUT
exit $bad
